"""C20 — type ids are structural: equal iff the wire-relevant layout is equal (structural clauses)."""
import re

import broker
import engine
import mir
import pairs
from c16 import check_pair

EXPLANATION = (
    "Static coverage and ordering rules over core/src/introspection (rustc MIR, feature `introspection`). Decided: (R1) the canonical (hashed) "
    "serialization `Serialize<XIr> for &XIr` of every IR struct reads every field of the struct except `doc`, reads no `doc` field, and uses pairwise "
    "distinct field ids; the IR enums (LayoutIr, BuiltInTypeIr) serialize every variant, without wildcard, under its own distinct id; (R2) order "
    "independence is in the types: every collection-typed IR field is a BTreeMap keyed by u32 / LexicalId or a BTreeSet, the hash input's reference set "
    "is a BTreeSet<SerializedValue>, and the IR builders insert each element under the element's own id(); (R3) TypeId::compute_from_dyn hashes exactly "
    "{VERSION, layout, referenced} with UUIDv5 under the layout's namespace, and the work-list expands a referenced type only when its layout was newly "
    "inserted (termination on recursive types) and, conversely, no path bypasses Compute::add for a popped reference or add_references for a new layout; "
    "(R5) in the 26 hand-written Introspectable impls of the built-in type constructors the types whose lexical ids the layout names are exactly the types "
    "add_references adds; (R4) the hand-written Serialize/Deserialize pairs of the introspection records agree on ids, tags, field "
    "identity, required-ness and unknown-id handling (same engine as C16). Not decided: collision freedom of UUIDv5, that macro and code generator "
    "produce the same IR for a schema."
)

IR = "aldrin_core::introspection::ir::"


def fields_read_by_calls(body, callee_rx):
    """(id desc, set of self fields) for each matching call"""
    out = []
    for c in body.calls:
        if not re.search(callee_rx, mir.short_fn(c.callee)):
            continue
        flds = set()
        for a in c.args[1:]:
            for d in body.describe(a):
                m = re.search(r"(?<![\w.])self\.(\w+)", d)
                if m:
                    flds.add(m.group(1))
        out.append((pairs.id_of(body, c.args[1]) if len(c.args) > 1 else "?", flds, c))
    return out


def all_self_fields_read(body):
    flds = set()
    for blk_i in body.live_blocks():
        blk = body.blocks[blk_i]
        places = []
        for st in blk["s"]:
            r = st["r"]
            if r.get("p"):
                places.append(r["p"])
            for o in r.get("o", []):
                if o[0] in ("c", "m"):
                    places.append(o[1])
        t = blk["t"]
        for o in t.get("a", []) if t["k"] == "call" else []:
            if o[0] in ("c", "m"):
                places.append(o[1])
        for p in places:
            if p[0] == 1:
                for e in p[1:]:
                    if e.startswith(".") and not e[1:].isdigit():
                        flds.add(e[1:])
                        break
    return flds


def run(rep):
    rep.explanation = EXPLANATION
    rep.trusted = ["rustc nightly MIR", "BTreeMap/BTreeSet iterate in key order", "uuid::Uuid::new_v5"]
    fdir = engine.ensure_facts(engine.config_for("C20"))
    prog = mir.Program(fdir, crates=["aldrin_core"])
    feats = prog.features.get("aldrin_core", [])
    rep.check("introspection" in feats, "C20-R1", "<config>", "feature", "the analysed configuration lacks feature `introspection`: %s" % feats, detail={})
    irs = {d: a for d, a in prog.adts.items() if d.startswith(IR) and d.endswith("Ir")}
    rep.floor("C20-R1", "IR types", len(irs), 17)
    ser = {}
    for d, b in prog.bodies.items():
        if pairs.trait_kind(b) == "ser" and b.name == "serialize" and (b.impl_self or "").startswith("&" + IR):
            ser[(b.impl_self or "")[1:]] = b
    n_struct = n_enum = 0
    for d, a in sorted(irs.items()):
        b = ser.get(d)
        short = d.split("::")[-1]
        if b is None:
            if short == "IntrospectionIr":
                continue  # the record that carries a computed id; it is not part of any hashed layout
            rep.fail("C20-R1", d, "canonical-serializer", "no `Serialize<%s> for &%s` found (the hashed form)" % (short, short))
            continue
        if a["kind"] == "Struct":
            n_struct += 1
            names = [f["name"] for f in a["variants"][0]["fields"]]
            want = set(names) - {"doc"}
            calls = fields_read_by_calls(b, r"^Struct[12]Serializer::(serialize|serialize_if_some)$")
            got = set(f for (_i, fs, _c) in calls for f in fs)
            rep.check(got == want, "C20-R1", b.def_, "covers-all-semantic-fields", "%s: the hashed serialization reads %s but the semantic fields are %s (missing %s, extra %s)" % (short, sorted(got), sorted(want), sorted(want - got), sorted(got - want)),
                      line=b.span, detail={"read": sorted(got), "fields": names})
            rep.check("doc" not in all_self_fields_read(b), "C20-R1", b.def_, "doc-excluded", "%s: the hashed serialization reads the documentation" % short, line=b.span, detail={})
            ids = [i for (i, _fs, _c) in calls]
            rep.check(len(ids) == len(set(ids)) and len(ids) == len(want), "C20-R1", b.def_, "distinct-field-ids", "%s: field ids %s must be pairwise distinct, one per semantic field" % (short, ids), line=b.span, detail={"ids": ids})
            # each id is used for one field only and each field once
            per_field = {}
            for (i, fs, _c) in calls:
                for f in fs:
                    per_field.setdefault(f, []).append(i)
            rep.check(all(len(v) == 1 for v in per_field.values()), "C20-R1", b.def_, "one-id-per-field", "%s: a field is written under several ids: %s" % (short, per_field), line=b.span, detail={})
        else:
            n_enum += 1
            w = pairs.Writer(prog, b)
            vnames = [v["name"] for v in a["variants"]]
            ids = [i for lst in w.variants.values() for (i, _t) in lst]
            ok = set(w.variants) == set(vnames) and len(ids) == len(set(ids)) == len(vnames)
            rep.check(ok, "C20-R1", b.def_, "covers-all-variants", "%s: every variant must be serialized under its own distinct id; variants %s, handled %s, ids %s" % (short, vnames, sorted(w.variants), ids), line=b.span, detail={})
            # payload of the variant is what is serialized
            for c in b.calls:
                if mir.short_fn(c.callee) == "Serializer::serialize_enum":
                    rep.check(any(re.match(r"^self\.0$", x) for x in b.describe(c.args[2])), "C20-R1", b.def_, "variant-payload", "%s: a variant must serialize its own payload" % short, line=c.line, detail={})
    rep.floor("C20-R1", "IR structs", n_struct, 15)
    rep.floor("C20-R1", "IR enums", n_enum, 2)

    # ---- R2 order independence ----------------------------------------------------------------------
    n_coll = 0
    for d, a in sorted(prog.adts.items()):
        if not d.startswith(IR) or a["kind"] != "Struct":
            continue
        for f in a["variants"][0]["fields"]:
            ty = f["ty"]
            if re.search(r"collections::|Vec<|HashMap|HashSet|\[", ty) and not ty.startswith("std::option::Option<std::string") and "String" != ty.split("::")[-1]:
                if "std::string::String" == ty:
                    continue
                n_coll += 1
                ok = bool(re.match(r"^std::collections::BTreeMap<(u32|aldrin_core::introspection::lexical_id::LexicalId), .*>$", ty)) or bool(re.match(r"^std::collections::BTreeSet<.*>$", ty))
                rep.check(ok, "C20-R2", d, "ordered-collection:%s" % f["name"], "%s.%s has type %s: IR collections must be BTreeMap<u32|LexicalId, _> or BTreeSet (iteration order must not depend on insertion order)" % (d.split("::")[-1], f["name"], ty), detail={"type": ty})
    rep.floor("C20-R2", "IR collection fields", n_coll, 6)
    comp = prog.adt("aldrin_core::introspection::type_id::Compute")
    if comp is None:
        rep.fail("C20-R2", "aldrin_core::introspection::type_id::Compute", "adt", "hash input struct not found")
    else:
        f = {x["name"]: x["ty"] for x in comp["variants"][0]["fields"]}
        rep.check(re.match(r"^std::collections::BTreeSet<aldrin_core::serialized_value::SerializedValue>$", f.get("referenced", "")) is not None, "C20-R2", "aldrin_core::introspection::type_id::Compute", "referenced-is-ordered-set",
                  "the set of referenced layouts must be a BTreeSet<SerializedValue>; it is %s" % f.get("referenced"), detail=f)
    # builders insert by the element's own id
    n_ins = 0
    for d, b in sorted(prog.bodies.items()):
        if not d.startswith(IR) or "Builder" not in d or b.kind != "AssocFn":
            continue
        for c in b.calls:
            if c.name == "insert" and (c.callee or "").startswith("std::collections::BTree") and len(c.args) == 3:
                n_ins += 1
                key = sorted(b.describe(c.args[1]))
                val = sorted(b.describe(c.args[2]))
                ok = any(re.match(r"^\w+Ir::(id|lexical_id)\((\w+)\)$", k) and re.match(r"^\w+Ir::(id|lexical_id)\((\w+)\)$", k).group(2) in [v for v in val] for k in key)
                rep.check(ok, "C20-R2", d, "insert-by-own-id", "builder inserts %s under key %s: elements must be keyed by their own id" % (val, key), line=c.line, detail={"key": key, "value": val})
    rep.floor("C20-R2", "builder insertions", n_ins, 4)

    # ---- R3 hash input ----------------------------------------------------------------------------------
    cs = None
    for d, b in prog.bodies.items():
        if pairs.trait_kind(b) == "ser" and b.name == "serialize" and (b.impl_self or "") == "&aldrin_core::introspection::type_id::Compute":
            cs = b
    if cs is None:
        rep.fail("C20-R3", "aldrin_core::introspection::type_id::Compute", "serializer", "Serialize for &Compute not found")
    else:
        calls = fields_read_by_calls(cs, r"^Struct[12]Serializer::serialize$")
        read = set(f for (_i, fs, _c) in calls for f in fs)
        consts = set(x for c in cs.calls if re.search(r"Struct[12]Serializer::serialize$", mir.short_fn(c.callee)) for x in cs.describe(c.args[2]) if x.startswith("const:"))
        rep.check(read == {"layout", "referenced"} and any(x.endswith("introspection::VERSION") for x in consts) and len(calls) == 3, "C20-R3", cs.def_, "hash-input", "the hash input must be exactly {VERSION, layout, referenced}; reads %s and constants %s" % (sorted(read), sorted(consts)),
                  detail={"read": sorted(read), "consts": sorted(consts)})
        rep.check("namespace" not in read, "C20-R3", cs.def_, "namespace-not-in-payload", "the namespace is the UUIDv5 namespace, not part of the payload", detail={})
    cf = prog.one(r"^aldrin_core::introspection::type_id::<impl aldrin_core::ids::type_id::TypeId>::compute_from_dyn$|^aldrin_core::ids::type_id::TypeId::compute_from_dyn$")
    v5 = [c for c in cf.calls if c.name == "new_v5"]
    ok = len(v5) == 1 and any("Compute::namespace(" in x for x in cf.describe(v5[0].args[0])) and any("SerializedValue::serialize(" in x for x in cf.describe(v5[0].args[1]))
    rep.check(ok, "C20-R3", cf.def_, "uuid-v5-of-serialized-compute", "the type id must be UUIDv5(namespace of the layout, serialized hash input)", detail={})
    ar = [c for c in cf.calls if c.name == "add_references"]
    inloop = [c for c in ar if broker.has_guard(cf, c.bb, r"^Some=discr\(Vec::pop\(")]
    ok = len(ar) == 2 and len(inloop) == 1 and bool(broker.has_guard(cf, inloop[0].bb, r"^True=Compute::add\("))
    rep.check(ok, "C20-R3", cf.def_, "expand-only-new-layouts", "the work-list must expand a referenced type only when Compute::add reported a new layout (termination on recursive types)", detail={"sites": len(ar)})
    # ... and every new layout IS expanded, every popped reference IS added: on no path from the pop back to the pop
    # (or out of the loop's body) is the add / the expansion of a newly inserted layout bypassed
    pops = [c for c in cf.calls if c.name == "pop"]
    adds = [c for c in cf.calls if c.name == "add" and (c.callee or "").endswith("Compute::add")]
    ok = len(pops) == 1 and len(adds) == 1 and len(inloop) == 1
    if ok:
        pop, add, exp = pops[0], adds[0], inloop[0]
        # blocks reachable from the add call without passing the expansion, restricted to the true edge of its result
        sw = [u for u in cf.live_blocks() if cf.blocks[u]["t"]["k"] == "switch" and ((cf.switch_guard(u) or {}).get("call") is not None and cf.switch_guard(u)["call"].bb == add.bb)]
        ok = len(sw) == 1
        if ok:
            tv = [v for v in set(cf.succ(sw[0])) if cf.edge_label(sw[0], v) == [True]]
            ok = len(tv) == 1 and pop.bb not in cf.reachable(tv[0], without_nodes={exp.bb}) and not (set(cf.exits()) & cf.reachable(tv[0], without_nodes={exp.bb, pop.bb}))
        # every popped reference reaches Compute::add
        psw = [u for u in cf.live_blocks() if cf.blocks[u]["t"]["k"] == "switch" and (cf.switch_guard(u) or {}).get("kind") == "variant" and any("Vec::pop(" in d for d in mir.describe_place(cf, cf.switch_guard(u)["place"], 8, set()))]
        ok2 = len(psw) == 1
        if ok2:
            sv = [v for v in set(cf.succ(psw[0])) if "Some" in (cf.edge_label(psw[0], v) or [])]
            ok2 = len(sv) == 1 and pop.bb not in cf.reachable(sv[0], without_nodes={add.bb})
        ok = ok and ok2
    rep.check(ok, "C20-R3", cf.def_, "expand-every-new-layout", "every reference popped from the work-list must be added to the hash input and every newly added layout must be expanded (no path bypasses Compute::add or add_references): otherwise a type reachable only through the bypassed one does not influence the id",
              detail={"pops": len(pops), "adds": len(adds)})
    ad = prog.one(r"^aldrin_core::introspection::type_id::Compute::add$")
    ins = [c for c in ad.calls if c.name == "insert" and any(x == "self.referenced" for x in ad.describe(c.args[0]))]
    rep.check(len(ins) == 1 and ins[0].dest == [0], "C20-R3", ad.def_, "add-returns-newly-inserted", "Compute::add must return whether the layout was newly inserted into the ordered set", detail={})

    r5(rep, prog)
    # derive(Introspectable) numbers items like the codec derives do (otherwise the id describes another wire format)
    import c16
    c16.r4(rep, mir.Program(fdir, crates=["aldrin_macros"]), rule="C20-R6")

    # ---- R4 record round trip --------------------------------------------------------------------------------
    C = pairs.collect(prog)
    n = 0
    for key, ent in sorted(C.items()):
        if not key.startswith("aldrin_core::introspection::") or key.startswith(IR) or not ent["de"] or not ent["ser"]:
            continue
        k = check_pair(rep, prog, key, ent, rule="C20-R4")
        if k:
            n += 1
    rep.floor("C20-R4", "introspection record types", n, 15)


def r5(rep, prog):
    """hand-written Introspectable impls of the built-in type constructors: every type whose lexical id goes into the layout
    is also added to the references (and nothing else) — otherwise a type reachable only through that position does not
    influence the id of anything that contains it"""
    n = 0
    for imp in prog.impls:
        if not (imp.get("trait") or "").endswith("::Introspectable") or imp["crate"] != "aldrin_core" or "::test" in imp["def"]:
            continue
        fns = {it["name"]: prog.body(it["def"]) for it in imp["items"] if it["kind"] == "fn"}
        lay, ar = fns.get("layout"), fns.get("add_references")
        if lay is None or ar is None or any(x and ("derive" in str(x) or "Introspectable" in str(x)) for x in (lay.exp, ar.exp)):
            continue   # derived impls are C16-R2's business (macro_rules families such as impl_tuple / impl_vec are hand-written)
        L = set()
        for b in [lay] + prog.closures_of(lay.def_):
            for c in b.calls:
                if c.name == "lexical_id":
                    L.add(c.self_ty or (c.gargs[0] if c.gargs else "?"))
        A = set()
        for b in [ar] + prog.closures_of(ar.def_):
            for c in b.calls:
                if (c.name == "add" and "References" in (c.callee or "")) or (c.name == "new" and "DynIntrospectable" in (c.callee or "")):
                    A.add(c.gargs[-1] if c.gargs else "?")
        if not L and not A:
            continue
        n += 1
        rep.check(L == A, "C20-R5", ar.def_, "references-cover-layout", "%s: the layout names the lexical ids of %s but add_references adds %s — a type in the uncovered position never enters the hashed reference set" % (imp["self"], sorted(L), sorted(A)),
                  line=ar.span, detail={"layout": sorted(L), "references": sorted(A)})
    rep.floor("C20-R5", "hand-written Introspectable impls with type arguments", n, 20)

    # ---- R7 the id is a function of the description and of nothing else (added after seeded change C20e) ---------------
    # A process-wide cache / any shared mutable state in the computation makes the id depend on what was computed before.
    # Who-may-call rule: no function of introspection::type_id reaches std::sync / std::cell / thread-local / once-cell
    # primitives, and none of its locals has such a type.
    STATEFUL = re.compile(r"std::sync::|core::cell::|std::cell::|std::thread::local|LocalKey|once_cell|OnceLock|LazyLock|OnceCell|RefCell|Mutex|RwLock|Atomic")
    n7 = 0
    for d, b in sorted(prog.bodies.items()):
        if "::test" in d or "aldrin_core::introspection::type_id::" not in d:
            continue
        n7 += 1
        bad = sorted(set((c.callee or c.full or c.name) for c in b.calls if STATEFUL.search(c.callee or c.full or "")))
        badl = sorted(set(l["ty"] for l in b.locals if STATEFUL.search(l["ty"])))
        rep.check(not bad and not badl, "C20-R7", d, "no-shared-state", "the type-id computation touches shared mutable state (%s): the id of a layout would depend on what was computed earlier in the process, not only on the layout" % (bad + badl)[:4], line=b.span, detail={"calls": bad, "locals": badl})
    rep.floor("C20-R7", "functions of introspection::type_id", n7, 6)
