"""C02 — every accepted call gets exactly one correctly routed reply (structural clauses)."""
import re

import broker
import engine
import mir
import sig

EXPLANATION = (
    "Static guard/origin rules over the broker's call handlers (rustc MIR). Decided: (R1) CallFunctionReply is constructed for sending in exactly "
    "four functions (call_function_impl: InvalidService before a pending entry exists; call_function_reply: forward; process_loop_result: queued "
    "removal; abort_call: Aborted); (R2) the forwarding send is dominated by the occupied-entry lookup by the reply's serial, the owner check against "
    "the replying connection, the removal of the pending entry and the not-aborted edge, and carries caller_serial / the owner's result unchanged / "
    "the caller's connection / the replier's protocol version; (R3) synthesized replies: Aborted only on the not-yet-aborted edge and after marking, "
    "InvalidService queued per removed pending call that is not aborted, the queue pop is sent as popped; (R4) the three bookkeeping sites of a call are "
    "created together (with rollback on a duplicate caller serial), the caller-side entry is removed exactly at abort or at completion; (R5) the forwarded "
    "call carries the broker serial returned by the pending map, the payload/function/cookie unchanged, to the connection owning the service's object; "
    "(R6) a disconnect aborts every call of the caller side. Not decided: exactly-once over all interleavings of the deferred queues."
)


def any_match(descs, pattern):
    rx = re.compile(pattern)
    return any(rx.search(d) for d in descs)


def all_match(descs, pattern):
    rx = re.compile(pattern)
    return bool(descs) and all(rx.search(d) for d in descs)


def run(rep):
    rep.explanation = EXPLANATION
    rep.trusted = ["rustc nightly MIR", "HashMap / SerialMap (OccupiedEntry::remove removes the entry) semantics"]
    rep.assumptions = ["co-mutation of registry maps (C03-R1) keeps the internal-key lookups total"]
    prog = broker.load(config=engine.config_for("C02"))
    M = broker.methods(prog)
    sends = broker.all_sends(prog)

    # ---- R1 who may reply ---------------------------------------------------------------------
    cfr = [s for s in sends if s.msg_type == "CallFunctionReply"]
    fns = sorted(set(s.body.name for s in cfr))
    want = ["abort_call", "call_function_impl", "call_function_reply", "process_loop_result"]
    rep.floor("C02-R1", "CallFunctionReply send sites", len(cfr), 4)
    for s in cfr:
        rep.check(s.body.name in want, "C02-R1", s.body.def_, "reply-site", "CallFunctionReply is sent from %s, which is not one of the four classified reply sites %s" % (s.body.name, want), line=s.line,
                  detail={"fn": s.body.name, "result": sorted(s.fields.get("result", []))})
    for w in want:
        n = len([s for s in cfr if s.body.name == w])
        rep.check(n == 1, "C02-R1", M[w].def_ if w in M else w, "reply-site-count", "%s must contain exactly one CallFunctionReply send, found %d" % (w, n), detail={"n": n})

    # ---- R1/R3: call_function_impl's InvalidService ---------------------------------------------
    impl = M["call_function_impl"]
    for s in [s for s in cfr if s.body.name == "call_function_impl"]:
        ok = (any_match(s.fields.get("result", []), r"CallFunctionResult::InvalidService") and any_match(s.fields.get("serial", []), r"^req\.serial$")
              and all_match(s.target, r"^self\.conns\[id\]") and bool(broker.has_guard(impl, s.bb, r"^None=discr\(self\.svc_uuids\[req\.service_cookie\]\)")))
        rep.check(ok, "C02-R3", impl.def_, "invalid-service-reply", "the immediate reply must be InvalidService with the caller's serial, to the caller, exactly when the service cookie is unknown", line=s.line,
                  detail={"fields": {k: sorted(v) for k, v in s.fields.items()}, "guards": impl.guard_strings(s.bb)})
        # no pending entry exists yet on that path
        ins = [c for c in impl.calls if c.name == "insert" and any_match(impl.describe(c.args[0]), r"^self\.function_calls")]
        rep.check(bool(ins) and not any(impl.reaches(c.bb, s.bb) for c in ins), "C02-R3", impl.def_, "invalid-service-before-pending", "the InvalidService reply must not be reachable after a pending entry was created", line=s.line, detail={})

    # ---- R2 forward path -----------------------------------------------------------------------
    cr = M["call_function_reply"]
    fw = [s for s in cfr if s.body.name == "call_function_reply"]
    if fw:
        s = fw[0]
        g = cr.guard_strings(s.bb)
        rm = [c for c in cr.calls if c.name == "remove" and any_match(cr.describe(c.args[0]), r"^self\.function_calls\.entry\(req\.serial\)")]
        checks = [
            ("lookup-by-serial", any(re.search(r"^Some=discr\(self\.function_calls\.entry\(req\.serial\)\)", x) for x in g), "forwarding must be on the Some edge of function_calls.entry(req.serial)"),
            ("owner-check", any(re.search(r"^False=PartialEq::ne\(Object::conn_id\(self\.objs\[self\.function_calls\.entry\(req\.serial\).*callee_obj\]\), id\)", x) for x in g),
             "forwarding must be on the false edge of `owner of the callee object != replying connection`"),
            ("entry-removed", bool(rm) and all(cr.dominates(c.bb, s.bb) for c in rm), "the pending entry must be removed before the reply is forwarded (a duplicate reply then finds nothing)"),
            ("not-aborted", any(re.search(r"^False=self\.function_calls\.entry\(req\.serial\)\.0\.remove\(\)\.aborted$", x) for x in g), "forwarding must be on the false edge of `call.aborted`"),
            ("serial", all_match(s.fields.get("serial", []), r"^self\.function_calls\.entry\(req\.serial\)\.0\.remove\(\)\.caller_serial$"), "forwarded serial must be the pending call's caller_serial"),
            ("result", all_match(s.fields.get("result", []), r"^req\.result$"), "forwarded result must be the owner's result unchanged"),
            ("target", all_match(s.target, r"^self\.conns\[self\.function_calls\.entry\(req\.serial\)\.0\.remove\(\)\.caller_conn_id\]"), "reply must go to the pending call's caller connection"),
            ("version", s.version is not None and all_match(s.version, r"self\.conns\[id\]"), "payload version must be the replying connection's (originator's) version"),
        ]
        for inst, ok, msg in checks:
            rep.check(ok, "C02-R2", cr.def_, inst, msg, line=s.line, detail={"guards": g, "fields": {k: sorted(v) for k, v in s.fields.items()}, "target": sorted(s.target)})
        # owner check happens before removal: a non-owner must not consume the entry
        ne = [c for c in cr.calls if c.name == "ne" and any_match(cr.describe(c.args[0]), r"Object::conn_id")]
        rep.check(bool(ne) and bool(rm) and all(cr.dominates(n.bb, r.bb) for n in ne for r in rm), "C02-R2", cr.def_, "owner-check-before-remove", "the owner check must precede the removal of the pending entry", line=cr.span, detail={})
    else:
        rep.fail("C02-R2", cr.def_, "forward-send", "no forwarding CallFunctionReply send found in call_function_reply")

    # ---- R3 synthesized replies ------------------------------------------------------------------
    ab = M["abort_call"]
    for s in [s for s in cfr if s.body.name == "abort_call"]:
        g = ab.guard_strings(s.bb)
        mark = []
        for i in ab.live_blocks():
            for st in ab.blocks[i]["s"]:
                if st["d"][-1:] == [".aborted"] and st["r"]["k"] == "use" and (mir.op_const(st["r"]["o"][0]) or {}).get("repr") in ("true", "const true"):
                    mark.append(i)
        checks = [
            ("aborted-result", any_match(s.fields.get("result", []), r"CallFunctionResult::Aborted"), "abort_call must reply Aborted"),
            ("not-yet-aborted", any(re.search(r"^False=self\.function_calls\[callee_serial\]\.0\.aborted$", x) for x in g), "the Aborted reply must be on the false edge of `call.aborted`"),
            ("marked", bool(mark) and all(ab.dominates(m, s.bb) for m in mark), "`call.aborted = true` must dominate the Aborted reply"),
            ("serial", all_match(s.fields.get("serial", []), r"^self\.function_calls\[callee_serial\]\.0\.caller_serial$"), "Aborted reply must carry the caller's serial"),
            ("target", all_match(s.target, r"^self\.conns\[self\.function_calls\[callee_serial\]\.0\.caller_conn_id\]"), "Aborted reply must go to the caller"),
        ]
        for inst, ok, msg in checks:
            rep.check(ok, "C02-R3", ab.def_, "abort:" + inst, msg, line=s.line, detail={"guards": g})
    # ---- R7 at least one reply: once a pending call is marked aborted / removed, the reply is reached on every path
    #         (unless the caller is gone, or the call was already answered at abort time)
    ab_sends = [s for s in cfr if s.body.name == "abort_call"]
    marks = []
    for i in ab.live_blocks():
        for st in ab.blocks[i]["s"]:
            if st["d"][-1:] == [".aborted"] and st["r"]["k"] == "use" and (mir.op_const(st["r"]["o"][0]) or {}).get("repr") in ("true", "const true"):
                marks.append(i)
    gone = ab.edges_matching([r"^None=discr\(self\.conns\[self\.function_calls\[callee_serial\]\.0\.caller_conn_id\]\)$"])
    ok = bool(marks) and len(ab_sends) == 1 and bool(gone)
    if ok:
        ok = not any(set(ab.exits()) & ab.reachable(m, without_nodes={ab_sends[0].bb}, without_edges=gone) for m in marks)
    rep.check(ok, "C02-R7", ab.def_, "abort-always-answers", "after `call.aborted = true` every path must reach the Aborted reply to the caller (unless the caller's connection is gone): otherwise the caller gets no reply at all — the owner's later reply is dropped as aborted",
              line=ab.span, detail={"marks": len(marks), "caller_gone_edges": len(gone)})
    rmv = [c for c in cr.calls if c.name == "remove" and any_match(cr.describe(c.args[0]), r"^self\.function_calls\.entry\(req\.serial\)")]
    cut = cr.edges_matching([r"^True=self\.function_calls\.entry\(req\.serial\)\.0\.remove\(\)\.aborted$", r"^None=discr\(self\.conns\[self\.function_calls\.entry\(req\.serial\)\.0\.remove\(\)\.caller_conn_id\]\)$"])
    ok = len(rmv) == 1 and bool(fw) and len(cut) == 2
    if ok:
        ok = not (set(cr.exits()) & cr.reachable(rmv[0].bb, without_nodes={fw[0].bb}, without_edges=cut))
    rep.check(ok, "C02-R7", cr.def_, "removed-entry-is-answered", "once the pending entry was removed every path must forward the reply, except when the call was aborted (answered then) or the caller is gone", line=cr.span,
              detail={"cut_edges": len(cut)})

    # the caller's AbortFunctionCall: once the pending call is known (Some edge of conn.call_data(req.serial)) the abort is queued on every path
    af = M["abort_function_call"]
    pa = [c for c in af.calls if c.name == "push_abort_function_call"]
    known = af.edges_matching([r"^Some=discr\(ConnectionState::call_data\(self\.conns\[id\]\.0, req\.serial\)\)$"])
    ok = len(pa) == 1 and len(known) == 1
    if ok:
        (_u, v) = list(known)[0]
        ok = not (set(af.exits()) & af.reachable(v, without_nodes={pa[0].bb}))
        ok = ok and all(re.match(r"^ConnectionState::call_data\(self\.conns\[id\]\.0, req\.serial\)\.0\.0$", d) for d in af.describe(pa[0].args[1]))
    rep.check(ok, "C02-R7", af.def_, "abort-request-always-queued", "an AbortFunctionCall for a pending call of the requester must be queued on every path (the queued abort is what marks the call aborted and answers the caller with Aborted, whatever the callee's version)",
              line=af.span, detail={"sites": len(pa), "known_edges": len(known)})

    # ... and every queued abort is executed with the queued (serial, callee) pair
    plr = M["process_loop_result"]
    popped = plr.edges_matching([r"^Some=discr\(State::pop_abort_function_call\(state\)\)$"])
    ac = [c for c in plr.calls if c.name == "abort_call"]
    pops = [c.bb for c in plr.calls if c.name.startswith("pop_")]
    ok = len(popped) == 1 and len(ac) == 1
    if ok:
        (_u, v) = list(popped)[0]
        r_ = plr.reachable(v, without_nodes={ac[0].bb})
        ok = not (set(pops) & r_) and not (set(plr.exits()) & r_) \
            and all(re.match(r"^State::pop_abort_function_call\(state\)\.0\.0$", d) for d in plr.describe(ac[0].args[2])) and all(re.match(r"^State::pop_abort_function_call\(state\)\.0\.1$", d) for d in plr.describe(ac[0].args[3]))
    rep.check(ok, "C02-R7", plr.def_, "queued-abort-executed", "every abort popped from the queue must be executed (abort_call) with the queued serial and callee before anything else is popped", detail={"sites": len(ac)})

    # broker serials of pending calls are not handed out again early: the counter of SerialMap only advances (a late or
    # duplicate reply to a resolved call must find nothing, R2 "entry-removed" relies on that)
    n_next = 0
    for d_, sb in sorted(prog.bodies.items()):
        if not d_.startswith("aldrin_broker::serial_map::SerialMap") or "::test" in d_:
            continue
        for i in sorted(sb.live_blocks()):
            for st in sb.blocks[i]["s"]:
                if st["d"][-1:] == [".next"] and st["d"][0] == 1 and st["r"]["k"] == "use":
                    n_next += 1
                    ds = sb.describe(st["r"]["o"][0])
                    ok = all(re.match(r"^num::wrapping_add\(self\.next, const:1_u32\)$", x) for x in ds)
                    rep.check(ok, "C02-R5", sb.def_, "serial-counter-only-advances", "the serial counter may only advance by one (wrapping): assigning %s hands a serial out again while a late reply to the resolved call that carried it may still arrive, and that reply would be forwarded to the wrong caller" % sorted(ds),
                              line=sb.span, detail={"value": sorted(ds)})
    rep.floor("C02-R5", "assignments of the serial counter", n_next, 1)

    rs = M["remove_service"]
    pushes = [c for c in rs.calls if c.name == "push_remove_function_call"]
    rrm = [c for c in rs.calls if c.name == "remove" and any_match(rs.describe(c.args[0]), r"^self\.function_calls$")]
    cut = rs.edges_matching([r"^True=.*function_calls\.remove\(.*aborted$", r"^None=discr\(self\.function_calls\.remove\("])
    ok = len(rrm) == 1 and len(pushes) == 1 and len(cut) >= 1
    if ok:
        # from the removal, neither the next iteration nor the exit is reachable without queueing the reply
        nxt = [c.bb for c in rs.calls if c.name == "next"]
        r_ = rs.reachable(rrm[0].bb, without_nodes={pushes[0].bb}, without_edges=cut)
        inner = [n for n in nxt if rs.reaches(rrm[0].bb, n) and rs.reaches(n, rrm[0].bb)]
        ok = bool(inner) and not (set(inner) & r_) and not (set(rs.exits()) & r_)
    rep.check(ok, "C02-R7", rs.def_, "removed-call-is-answered", "every pending call removed together with its service must be queued for an InvalidService reply unless it was aborted", line=rs.span, detail={"cut_edges": len(cut)})
    rep.check(len(pushes) == 1, "C02-R3", rs.def_, "push-count", "remove_service must queue InvalidService at exactly one site", detail={"n": len(pushes)})
    for c in pushes:
        g = rs.guard_strings(c.bb)
        descs = [sorted(rs.describe(a)) for a in c.args]
        ok = (any(re.search(r"^False=self\.function_calls\.remove\(.*\)\.0?\.?aborted$|^False=.*function_calls\.remove\(.*aborted", x) for x in g)
              and any_match(descs[1], r"function_calls\.remove\(.*caller_serial$") and any_match(descs[2], r"function_calls\.remove\(.*caller_conn_id$")
              and any_match(descs[3], r"CallFunctionResult::InvalidService"))
        rep.check(ok, "C02-R3", rs.def_, "queued-invalid-service", "remove_service must queue (caller_serial, caller_conn_id, InvalidService) of each removed pending call that is not aborted", line=c.line,
                  detail={"guards": g, "args": descs})
    pl = M["process_loop_result"]
    for s in [s for s in cfr if s.body.name == "process_loop_result"]:
        ok = (all_match(s.fields.get("serial", []), r"^State::pop_remove_function_call\(state\)\.0\.0$") and all_match(s.fields.get("result", []), r"^State::pop_remove_function_call\(state\)\.0\.2$")
              and all_match(s.target, r"^self\.conns\[State::pop_remove_function_call\(state\)\.0\.1\]"))
        rep.check(ok, "C02-R3", pl.def_, "queue-pop-sent-as-queued", "the popped (serial, conn, result) must be sent unchanged to that connection", line=s.line,
                  detail={"fields": {k: sorted(v) for k, v in s.fields.items()}, "target": sorted(s.target)})
        rc = [c for c in pl.calls if c.name == "remove_call"]
        rep.check(bool(rc) and all(any_match(pl.describe(c.args[1]), r"pop_remove_function_call\(state\)\.0\.0$") and pl.dominates(c.bb, s.bb) for c in rc), "C02-R4", pl.def_, "complete:remove_call-queued",
                  "the queued completion must remove the caller-side entry for the popped serial before replying", line=s.line, detail={})

    # ---- R4 bookkeeping ---------------------------------------------------------------------------
    def ev(c):
        d = c.callee or ""
        if c.name in ("insert", "remove") and any_match(c.body.describe(c.args[0]), r"^self\.function_calls"):
            return [("FC", c.name, c.bb)]
        if d.endswith("ConnectionState::add_call"):
            return [("CONN", "add_call", c.bb)]
        if d.endswith("ConnectionState::remove_call"):
            return [("CONN", "remove_call", c.bb)]
        if d.endswith("Service::add_function_call"):
            return [("SVC", "add", c.bb)]
        if d.endswith("Service::remove_function_call"):
            return [("SVC", "remove", c.bb)]
        if d.endswith("ConnectionState::send"):
            s = broker.Send(c.body, c)
            return [("SEND", s.msg_type, c.bb)]
        return None
    n_paths = 0
    for (toks, shape) in broker.event_paths(prog, impl, ev):
        toks = [t for t in toks if t[0] != "@res"]
        names = [(t[0], t[1]) for t in toks]
        fwd = any(t[0] == "SEND" and t[1] in ("CallFunction", "CallFunction2") for t in toks)
        is_err = bool(shape and shape[0] == "Err")
        n_paths += 1
        if fwd:
            ok = names.count(("FC", "insert")) == 1 and names.count(("CONN", "add_call")) == 1 and names.count(("SVC", "add")) == 1 and ("FC", "remove") not in names
            rep.check(ok, "C02-R4", impl.def_, "create:all-three", "a forwarded call must create the pending entry, the caller-side entry and the service-side entry exactly once each; path has %s" % names, line=impl.span, detail={"events": names})
        elif ("FC", "insert") in names:
            ok = is_err and names.count(("FC", "remove")) == 1 and ("SVC", "add") not in names
            rep.check(ok, "C02-R4", impl.def_, "create:rollback", "a path that created a pending entry but does not forward must roll it back and return Err; path has %s (%s)" % (names, shape), line=impl.span, detail={"events": names})
        else:
            rep.check(("CONN", "add_call") not in names and ("SVC", "add") not in names, "C02-R4", impl.def_, "create:none", "no bookkeeping without a pending entry; path has %s" % names, line=impl.span, detail={"events": names})
    rep.floor("C02-R4", "paths of call_function_impl", n_paths, 4)
    # add_call's boolean decides the rollback
    ac = [c for c in impl.calls if (c.callee or "").endswith("ConnectionState::add_call")]
    rb = [c for c in impl.calls if c.name == "remove" and any_match(impl.describe(c.args[0]), r"^self\.function_calls")]
    rep.check(len(ac) == 1 and len(rb) == 1 and bool(broker.has_guard(impl, rb[0].bb, r"^(False|True)=(Not\()?ConnectionState::add_call\(")), "C02-R4", impl.def_, "create:rollback-guard",
              "the rollback of the pending entry must be controlled by add_call's result", line=impl.span, detail={})
    # complete (reply path): removal co-mutated with service-side removal; caller-side only when not aborted
    n_paths = 0
    for (toks, shape) in broker.event_paths(prog, cr, ev):
        none_bbs = set(t[1] for t in toks if t[0] == "@res" and t[2] == "None")
        names = [(t[0], t[1]) for t in toks if t[0] != "@res"]
        n_paths += 1
        if ("FC", "remove") in names:
            sent = any(t[0] == "SEND" for t in toks)
            ok = names.count(("SVC", "remove")) == 1 and (names.count(("CONN", "remove_call")) == (1 if sent else names.count(("CONN", "remove_call"))))
            rep.check(ok and (not sent or names.count(("CONN", "remove_call")) == 1), "C02-R4", cr.def_, "complete:co-mutation",
                      "removing the pending entry must also remove the service-side entry, and a forwarded reply must remove the caller-side entry exactly once; path has %s" % names, line=cr.span, detail={"events": names})
        else:
            rep.check(("SVC", "remove") not in names and ("CONN", "remove_call") not in names and not any(t[0] == "SEND" for t in toks), "C02-R4", cr.def_, "complete:nothing-without-removal",
                      "a reply that does not remove a pending entry must have no effect; path has %s" % names, line=cr.span, detail={"events": names})
    rep.floor("C02-R4", "paths of call_function_reply", n_paths, 5)
    rcs = [c for c in cr.calls if c.name == "remove_call"]
    rep.check(bool(rcs) and all(bool(broker.has_guard(cr, c.bb, r"^False=.*\.aborted$")) for c in rcs), "C02-R4", cr.def_, "complete:remove_call-not-aborted", "caller-side removal at completion only when the call was not aborted", detail={})
    rcs = [c for c in ab.calls if c.name == "remove_call"]
    rep.check(bool(rcs) and all(bool(broker.has_guard(ab, c.bb, r"^False=self\.function_calls\[callee_serial\]\.0\.aborted$")) and any_match(ab.describe(c.args[1]), r"caller_serial$") for c in rcs), "C02-R4", ab.def_, "abort:remove_call",
              "abort must remove the caller-side entry (caller_serial) exactly on the not-yet-aborted edge", detail={})
    # remove_service: each removed pending call comes from the service's own set
    rms = [c for c in rs.calls if c.name == "remove" and any_match(rs.describe(c.args[0]), r"^self\.function_calls")]
    rep.check(len(rms) == 1 and any_match(rs.describe(rms[0].args[1]), r"Service::function_calls\(self\.svcs\.remove\("), "C02-R4", rs.def_, "complete:service-removal",
              "remove_service must remove exactly the pending calls recorded in the removed service", detail={"keys": sorted(rs.describe(rms[0].args[1])) if rms else None})

    # ---- R5 routing -------------------------------------------------------------------------------
    fwd = [s for s in sends if s.body.name == "call_function_impl" and s.msg_type in ("CallFunction", "CallFunction2")]
    rep.floor("C02-R5", "forwarding sends", len(fwd), 2)
    for s in fwd:
        f = s.fields
        checks = [
            ("serial", all_match(f.get("serial", []), r"^self\.function_calls\.insert\(PendingFunctionCall::PendingFunctionCall\("), "forwarded serial must be the broker serial returned by function_calls.insert"),
            ("cookie", all_match(f.get("service_cookie", []), r"^req\.service_cookie$"), "service cookie unchanged"),
            ("function", all_match(f.get("function", []), r"^req\.function$"), "function id unchanged"),
            ("value", all_match(f.get("value", []), r"^req\.value$"), "payload unchanged"),
            ("target", all_match(s.target, r"^self\.conns\[Object::conn_id\(self\.objs\[self\.svc_uuids\[req\.service_cookie\]\.0\.0\.uuid\]\)\]"), "target must be the connection owning the service's object"),
            ("version", s.version is not None and all_match(s.version, r"^ConnectionState::version\(self\.conns\[id\]"), "payload version must be the caller's"),
        ]
        if s.msg_type == "CallFunction2":
            checks.append(("version-field", all_match(f.get("version", []), r"^req\.version$"), "requested service version unchanged"))
        for inst, ok, msg in checks:
            rep.check(ok, "C02-R5", impl.def_, "%s:%s" % (s.msg_type, inst), msg, line=s.line, detail={"fields": {k: sorted(v) for k, v in f.items()}, "target": sorted(s.target)})
    # the pending entry records the caller
    ins = [c for c in impl.calls if c.name == "insert" and any_match(impl.describe(c.args[0]), r"^self\.function_calls")]
    if ins:
        pf = broker.aggregate_fields(impl, ins[0].args[1])
        ok = (all_match(pf.get("caller_serial", []), r"^req\.serial$") and all_match(pf.get("caller_conn_id", []), r"^id$") and all_match(pf.get("callee_obj", []), r"^self\.svc_uuids\[req\.service_cookie\]\.0\.0\.uuid$")
              and all_match(pf.get("callee_svc", []), r"^self\.svc_uuids\[req\.service_cookie\]\.0\.1$") and all_match(pf.get("aborted", []), r"false"))
        rep.check(ok, "C02-R5", impl.def_, "pending-entry", "the pending entry must record (caller serial, caller connection, callee object, callee service, aborted=false)", line=ins[0].line, detail={k: sorted(v) for k, v in pf.items()})

    # ---- R6 disconnect coverage ---------------------------------------------------------------------
    sd = M["shutdown_connection"]
    pa = [c for c in sd.calls if c.name == "push_abort_function_call"]
    rep.check(bool(pa) and all(any_match([x for a in c.args for x in sd.describe(a)], r"ConnectionState::calls\(") for c in pa), "C02-R6", sd.def_, "abort-calls-of-caller",
              "a disconnect must queue an abort for every element of conn.calls()", detail={})
    ro = [c for c in sd.calls if c.name == "remove_object"]
    rep.check(bool(ro) and all(any_match([x for a in c.args for x in sd.describe(a)], r"ConnectionState::objects\(") for c in ro), "C02-R6", sd.def_, "remove-owned-objects",
              "a disconnect must remove every owned object (whose services then answer pending calls with InvalidService)", detail={})
    robj = M["remove_object"]
    rsv = [c for c in robj.calls if c.name == "remove_service"]
    rep.check(bool(rsv) and all(any_match([x for a in c.args for x in robj.describe(a)], r"Object::services\(") for c in rsv), "C02-R6", robj.def_, "cascade", "remove_object must remove every service of the object", detail={})
    # abort requests from clients go through the same abort_call
    af = M["abort_function_call"]
    pa = [c for c in af.calls if c.name == "push_abort_function_call"]
    rep.check(bool(pa) and all(any_match(af.describe(c.args[1]), r"ConnectionState::call_data\(self\.conns\[id\]\.0, req\.serial\)") for c in pa), "C02-R3", af.def_, "abort-request-lookup",
              "an abort request must be translated through the caller's own call table (stale serials are ignored)", detail={})
