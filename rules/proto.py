"""Facts shared by C06 and C12: what each side sends, what each side accepts, and under which
negotiated version (extracted from both programs; no external protocol table)."""
import re

import broker
import mir

VER = re.compile(r"^(True|False)=PartialOrd::(lt|ge|le|gt)\((.*), const:aldrin_core::ProtocolVersion::V1_(\d+)\)$")
BROKER_VERSION_OF = re.compile(r"^ConnectionState::version\((.*)\)$")


def load(fdir):
    return mir.Program(fdir, crates=["aldrin_broker", "aldrin", "aldrin_core"])


def version_bounds(guards, subject_rx):
    """from guard strings: (lower, upper) such that lower <= subject.version (minor) and
    subject.version < upper hold at that point; None when unconstrained.
    subject_rx selects whose version is compared (regex on the first operand)."""
    lo, hi = None, None
    srx = re.compile(subject_rx)
    for g in guards:
        m = VER.match(g)
        if not m:
            continue
        val, op, subj, minor = m.group(1) == "True", m.group(2), m.group(3), int(m.group(4))
        if not srx.search(subj):
            continue
        if (op == "ge" and val) or (op == "lt" and not val):
            lo = max(lo, minor) if lo is not None else minor
        elif (op == "lt" and val) or (op == "ge" and not val):
            hi = min(hi, minor) if hi is not None else minor
        elif (op == "gt" and val) or (op == "le" and not val):
            lo = max(lo, minor + 1) if lo is not None else minor + 1
        elif (op == "le" and val) or (op == "gt" and not val):
            hi = min(hi, minor + 1) if hi is not None else minor + 1
    return lo, hi


class ClientSend:
    def __init__(self, body, call):
        self.body = body
        self.call = call
        self.bb = call.bb
        self.line = call.line
        self.kinds = set()
        self.msg = body.describe(call.args[1])
        p = mir.op_place(call.args[1])
        ty = body.local_ty(p[0]) if p else ""
        m = re.match(r"^aldrin_core::message::(\w+)$", ty)
        if m and m.group(1) != "Message":
            self.kinds.add(m.group(1))
        else:
            for ds in self.msg:
                m2 = re.match(r"^Message::(\w+)\(", ds)
                if m2:
                    self.kinds.add(m2.group(1))
        self.guards = body.guard_strings(call.bb)
        self.version = version_bounds(self.guards, r"(upvar:)?self\.version$")
        self.converted = any(re.match(r"^Continue=discr\(MessageOps::convert_value\(", g) for g in self.guards)

    def fn(self):
        return re.sub(r"^aldrin::client::Client::<T>::|::\{closure#0\}$", "", self.body.def_)


def client_sends(prog):
    out = []
    for d, b in prog.bodies.items():
        if not d.startswith("aldrin::client") or "::test" in d:
            continue
        for c in b.calls:
            if c.name in ("send", "send_and_flush", "send_start") and "AsyncTransport" in (c.callee or ""):
                out.append(ClientSend(b, c))
    return out


def client_dispatch(prog):
    hm = prog.one(r"^aldrin::client::Client::<T>::handle_message::\{closure#0\}$")
    return broker.dispatch_map(hm, callee_prefix="aldrin::client::Client") + (hm,)


def broker_dispatch(prog):
    hm = prog.one(r"^aldrin_broker::broker::Broker::handle_message$")
    return broker.dispatch_map(hm, callee_prefix="aldrin_broker::broker::Broker::") + (hm,)


def client_handler_body(prog, name):
    r = prog.find(r"^aldrin::client::Client::<T>::%s(::\{closure#0\})?$" % re.escape(name))
    # async handlers: the coroutine body carries the logic
    cl = [b for b in r if b.def_.endswith("{closure#0}")]
    return (cl or r or [None])[0]


def ok_exit_blocks(body):
    out = []
    for i in sorted(body.live_blocks()):
        for st in body.blocks[i]["s"]:
            r = st["r"]
            if st["d"] == [0] and r["k"] == "agg" and r.get("variant") == "Ok" and "Result" in r.get("adt", ""):
                out.append(i)
    # tail calls that return the callee's Result directly (e.g. `send!(..)` as last expression) count as accepting paths
    for c in body.calls:
        if c.dest == [0] and c.name not in ("from_residual",):
            out.append(c.bb)
    return sorted(set(out))


def accept_gate(body, subject_rx):
    """lowest version from which the handler can accept (reach an Ok exit): min over accepting
    exits of the lower bound holding there (None = accepts at any version)"""
    los = []
    for i in ok_exit_blocks(body):
        lo, hi = version_bounds(body.guard_strings(i), subject_rx)
        los.append(lo)
    if not los:
        return "never"
    if any(l is None for l in los):
        return None
    return min(los)


def effect_sites(body):
    """calls with an externally visible or state-changing effect inside a broker handler"""
    out = []
    for c in body.calls:
        d = c.callee or ""
        if d == "aldrin_broker::broker::conn_state::ConnectionState::send" or d.startswith("aldrin_broker::broker::state::State::push_"):
            out.append(c)
        elif d.startswith("aldrin_broker::broker::Broker::") and c.name not in ("handle",):
            out.append(c)
        elif broker.state_event(c):
            out.append(c)
        elif re.match(r"^aldrin_broker::(broker::(conn_state::ConnectionState|service::Service|object::Object|channel::Channel)|bus_listener::BusListener|introspection_database::\w+)::", d):
            b = body.prog.body(d)
            # methods taking &mut self
            if b is not None and b.locals[1]["ty"].startswith("&mut "):
                out.append(c)
    return out


def effect_gate(body, subject_rx):
    """lowest negotiated version at which the handler can have any effect (None = ungated)"""
    los = []
    for c in effect_sites(body):
        lo, hi = version_bounds(body.guard_strings(c.bb), subject_rx)
        los.append(lo)
    if not los:
        return "noeffects"
    if any(l is None for l in los):
        return None
    return min(los)


def conn_identity(body, operand):
    """origin-based identity of a `&ConnectionState` operand: its own origins plus the origins of
    the key it was looked up with in self.conns (so that two lookups with the same key agree)"""
    ident = set(o for o in body.origins(operand) if o[0] in ("call", "param", "upvar"))
    for lc in body.origin_calls(operand):
        if lc is not None and lc.name in ("get", "get_mut") and len(lc.args) > 1 and any(ds.startswith("self.conns") for ds in body.describe(lc.args[0])):
            ident |= set(o for o in body.origins(lc.args[1]) if o[0] in ("call", "param", "upvar"))
    return ident


def version_bounds_of_conn(body, bb, conn_operand):
    """(lower, upper) bounds on the negotiated version of the connection `conn_operand` that hold
    on entry to bb — matched structurally (same origins), not by text"""
    ident = conn_identity(body, conn_operand)
    lo, hi = None, None
    for (u, g, labels) in body.dominating_guards(bb):
        if g is None or g.get("kind") != "bool" or g.get("call") is None or not labels:
            continue
        c = g["call"]
        if c.name not in ("lt", "ge", "le", "gt") or not (c.trait or "").endswith("cmp::PartialOrd"):
            continue
        op = c.name
        a_subj, a_const = c.args[0], c.args[1]
        consts = [d for d in body.describe(a_const) if d.startswith("const:aldrin_core::ProtocolVersion::V1_")]
        if len(consts) != 1:
            # the comparison may be written the other way round: `V1_16 <= conn.version()`
            a_subj, a_const = c.args[1], c.args[0]
            consts = [d for d in body.describe(a_const) if d.startswith("const:aldrin_core::ProtocolVersion::V1_")]
            op = {"lt": "gt", "gt": "lt", "le": "ge", "ge": "le"}[op]
        if len(consts) != 1:
            continue
        minor = int(consts[0].rsplit("_", 1)[1])
        subj = [vc for vc in body.origin_calls(a_subj) if vc is not None and vc.callee == "aldrin_broker::broker::conn_state::ConnectionState::version"]
        if not subj or not any(conn_identity(body, vc.args[0]) & ident for vc in subj):
            continue
        val = labels[0]
        if (op == "ge" and val) or (op == "lt" and not val):
            lo = max(lo, minor) if lo is not None else minor
        elif (op == "lt" and val) or (op == "ge" and not val):
            hi = min(hi, minor) if hi is not None else minor
        elif (op == "gt" and val) or (op == "le" and not val):
            lo = max(lo, minor + 1) if lo is not None else minor + 1
        elif (op == "le" and val) or (op == "gt" and not val):
            hi = min(hi, minor + 1) if hi is not None else minor + 1
    return lo, hi


def kind_bounds_client(send):
    """per-kind version bounds of a client send whose message is chosen between several kinds:
    the bounds holding where each `Message::K(..)` value is built"""
    body = send.body
    out = {}
    for i in sorted(body.live_blocks()):
        for st in body.blocks[i]["s"]:
            r = st["r"]
            if r["k"] == "agg" and r.get("ak") == "adt" and r.get("adt", "").endswith("message::Message") and r.get("variant") in send.kinds:
                out[r["variant"]] = version_bounds(body.guard_strings(i), r"(upvar:)?self\.version$")
    return out
