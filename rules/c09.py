"""C09 — disconnect / shutdown cleanup and exact statistics gauges (structural clauses)."""
import os
import re
import tomllib

import broker
import engine
import mir
import sig

EXPLANATION = (
    "Static path rules over the synchronous handlers of aldrin_broker::broker::Broker and the connection task, on rustc MIR. "
    "Decided: (R1) on every path — success and error — of every Broker method the number of insertions into / removals from each registry map "
    "(conns, objs, svcs, channels, bus_listeners) equals the number of increments / decrements of its statistics gauge (a removal that "
    "returned None is not a removal), so no fallible exit separates a map mutation from its gauge update; likewise every insertion into objs / channels / "
    "bus_listeners is paired on that very path with the ownership record in the creating connection's state (add_object / add_sender|add_receiver / add_bus_listener) "
    "that the teardown later walks; (R2) shutdown_connection visits every "
    "collection field of ConnectionState through its iterator accessor and feeds it to the matching removal helper, and reaches bus-listener, "
    "channel-end (both ends), call-abort and introspection cleanup; (R3) the ShutdownBroker arm queues every connection with send_shutdown=true "
    "and sets shutdown_now, shutdown_connection sends Shutdown only under that flag, the run loop exits only under "
    "shutdown_now || (shutdown_idle && conns.is_empty()); (R4) every exit of Connection::run passes through client_shutdown / client_error / "
    "broker_shutdown (which notify the broker) or is the broker-gone case; (R5) the per-connection mirror of channel ends stays in step with the channel: "
    "every caller of remove_channel_end names the owning connection (so its senders / receivers set is updated) unless the call is dominated by evidence "
    "that the end is unclaimed (SendItemError::ReceiverUnclaimed, or the claimed flag of Channel::check_close being false) — a stale mirror entry makes the "
    "later teardown of that connection close the end a second time. "
    "Not decided: absence of residual state over all histories and fault points; the dropped-task case is lazy by design."
)


def run(rep):
    rep.explanation = EXPLANATION
    rep.trusted = ["rustc nightly MIR construction and type checking", "HashMap/HashSet insert/remove semantics", "tables/c09.toml"]
    rep.assumptions = ["ConnectionState and ConnectionEvent are not exported (witness W5)"]
    configs = [engine.config_for("C09")]
    if rep.tier == "thorough":
        configs.append("broker-stat")
    tab = tomllib.load(open(os.path.join(engine.VERIF, "tables", "c09.toml"), "rb"))
    for cfg in configs:
        prog = broker.load(config=cfg)
        feats = prog.features.get("aldrin_broker", [])
        if "statistics" not in feats:
            rep.fail("C09-R1", "<config>", cfg, "extraction config %s lacks feature `statistics` (features: %s)" % (cfg, feats))
            continue
        r1(rep, prog, tab, cfg)
        if cfg == configs[0]:
            r2(rep, prog, tab)
            r3(rep, prog)
            r4(rep, prog)
            r5(rep, prog)
            r6(rep, prog)


# ---- R1 ---------------------------------------------------------------------------------------

def r1(rep, prog, tab, cfg):
    groups = [(g["map"], g["gauge"]) for g in tab["gauge"]]
    mirrors = [(g["map"], set(g["record"])) for g in tab.get("mirror", [])]
    rec_names = set(x for (_m, r) in mirrors for x in r)

    def ev_fn(c):
        e = broker.state_event(c)
        if e:
            return e
        sf = mir.short_fn(c.callee)
        if sf in rec_names:
            return [("REC", sf, c.bb)]
        return None
    meths = broker.methods(prog)
    rep.floor("C09-R1", "Broker methods (%s)" % cfg, len(meths), 35)
    n_mut = 0
    n_mirror = [0]
    seen_groups = set()
    for name, b in sorted(meths.items()):
        try:
            paths = broker.event_paths(prog, b, ev_fn)
        except sig.PathExplosion:
            rep.fail("C09-R1", b.def_, "paths", "path bound exceeded; rule fails closed", line=b.span)
            continue
        for (toks, shape) in paths:
            ev = broker.cancel_absent(toks)
            for (m, recs) in mirrors:
                ins = sum(1 for t in ev if t[0] == "MAP" and t[1] == m and t[2] == "insert")
                rec = sum(1 for t in ev if t[0] == "REC" and t[1] in recs)
                if ins or rec:
                    n_mirror[0] += 1
                    outcome = "Err" if (shape and shape[0] == "Err") else "Ok/unit"
                    rep.check(ins == rec, "C09-R1", b.def_, "ownership-record:%s" % m,
                              "on a path returning %s: %d insert on self.%s but %d ownership record(s) (%s) in the connection: an entry without its record is never cleaned up when the connection ends" % (outcome, ins, m, rec, "/".join(sorted(recs))),
                              line=b.span, detail={"config": cfg, "outcome": outcome})
            for (m, g) in groups:
                ins = sum(1 for t in ev if t[0] == "MAP" and t[1] == m and t[2] == "insert")
                rem = sum(1 for t in ev if t[0] == "MAP" and t[1] == m and t[2] == "remove")
                inc = sum(1 for t in ev if t[0] == "GAUGE" and t[1] == g and t[2] == "+")
                dec = sum(1 for t in ev if t[0] == "GAUGE" and t[1] == g and t[2] == "-")
                if ins or rem or inc or dec:
                    n_mut += 1
                    seen_groups.add(m)
                    outcome = "Err" if (shape and shape[0] == "Err") else "Ok/unit"
                    ok = ins == inc and rem == dec
                    rep.check(ok, "C09-R1", b.def_, "gauge:%s/%s" % (m, g),
                              "on a path returning %s: %d insert / %d remove on self.%s but %d increment / %d decrement of statistics.%s" % (outcome, ins, rem, m, inc, dec, g),
                              line=b.span, detail={"config": cfg, "outcome": outcome, "events": [list(map(str, t)) for t in ev]})
    rep.floor("C09-R1", "mutating paths (%s)" % cfg, n_mut, 12)
    rep.floor("C09-R1", "gauge groups seen (%s)" % cfg, len(seen_groups), 5)
    rep.floor("C09-R1", "paths creating an owned entry (%s)" % cfg, n_mirror[0], 4)
    # every gauge assignment writes back into the field it read
    for name, b in meths.items():
        for c in b.calls:
            e = broker.state_event(c)
            if e and e[0][0] == "GAUGE":
                g = e[0][1]
                wrote = False
                for blk in b.blocks:
                    for s in blk["s"]:
                        d = s["d"]
                        if len(d) >= 3 and d[-1] == "." + g and ".statistics" in d:
                            p = mir.op_place(s["r"]["o"][0]) if s["r"]["k"] == "use" else None
                            if p is not None and p[0] == c.dest[0]:
                                wrote = True
                rep.check(wrote, "C09-R1", b.def_, "gauge-writeback:%s" % g, "result of saturating_add/sub on statistics.%s is not stored back into that field" % g, line=c.line, detail={"gauge": g})


# ---- R2 ---------------------------------------------------------------------------------------

def r2(rep, prog, tab):
    cs = prog.adt("aldrin_broker::broker::conn_state::ConnectionState")
    if cs is None:
        rep.fail("C09-R2", "aldrin_broker::broker::conn_state::ConnectionState", "adt", "ConnectionState not found")
        return
    coll = [f["name"] for f in cs["variants"][0]["fields"] if re.search(r"collections::(HashMap|HashSet|BTreeMap|BTreeSet)|Vec<", f["ty"])]
    rep.floor("C09-R2", "collection fields of ConnectionState", len(coll), 8)
    # accessor methods: &self methods of ConnectionState returning an iterator, and the fields they read
    acc = {}
    for d, b in prog.bodies.items():
        if b.impl_self == "aldrin_broker::broker::conn_state::ConnectionState" and b.kind == "AssocFn":
            ret = b.locals[0]["ty"]
            if "Iterator" in ret:
                fields = set()
                for blk in b.blocks:
                    for s in blk["s"]:
                        r = s["r"]
                        places = [r.get("p")] if r.get("p") else []
                        for o in r.get("o", []):
                            if o[0] in ("c", "m"):
                                places.append(o[1])
                        for p in places:
                            if p and p[0] == 1:
                                for e in p[1:]:
                                    if e.startswith(".") and e[1:] in coll:
                                        fields.add(e[1:])
                acc[b.name] = fields
    sd = prog.one(r"^aldrin_broker::broker::Broker::shutdown_connection$")
    covered = {}
    for c in sd.calls:
        if (c.callee or "").startswith("aldrin_broker::broker::conn_state::ConnectionState::") and c.name in acc:
            for f in acc[c.name]:
                covered.setdefault(f, []).append(c.name)
    for f in coll:
        rep.check(f in covered, "C09-R2", sd.def_, "field:%s" % f,
                  "collection field ConnectionState.%s is not visited by shutdown_connection (no iterator accessor over it is called): a disconnect would leave it behind" % f,
                  line=sd.span, detail={"field": f, "accessors": covered.get(f)})
    # each accessor feeds the matching removal helper
    want = {w["accessor"]: w for w in tab["teardown"]}
    for accname, w in sorted(want.items()):
        found = False
        for c in sd.calls:
            if c.name != w["helper"]:
                continue
            descs = [ds for a in c.args for ds in sd.describe(a)]
            if not any(("ConnectionState::%s(" % accname) in ds for ds in descs):
                continue
            if w.get("arg") and not any(w["arg"] in ds for ds in descs):
                continue
            found = True
        rep.check(found, "C09-R2", sd.def_, "feeds:%s->%s%s" % (accname, w["helper"], ("(" + w["arg"] + ")") if w.get("arg") else ""),
                  "shutdown_connection does not pass the elements of conn.%s() to %s" % (accname, w["helper"]), line=sd.span, detail=w)
    # ... on EVERY path after the state was removed (no early return may skip a cleanup loop)
    for a, ok in sorted(broker.teardown_must_pass(sd, sorted(want)).items()):
        rep.check(ok, "C09-R2", sd.def_, "always-visits:%s" % a, "once the connection was taken out of self.conns every path of shutdown_connection must go through the cleanup of conn.%s(); an early return leaves what the connection owned behind for ever" % a, line=sd.span, detail={})
    # every affected peer is told once that a service of the departed connection is gone
    sc_, ok_, ret_ = broker.subscribed_conn_ids_once(prog)
    rep.check(ok_, "C09-R2", sc_.def_, "each-affected-peer-once", "Service::subscribed_conn_ids must hand out every subscribed connection once (collected in a set): a peer holding several subscriptions of a service of the departed connection would be told ServiceDestroyed several times", detail={"returns": ret_})
    # unconditional helpers
    for h in tab["teardown_calls"]:
        cs_ = [c for c in sd.calls if c.name == h]
        ok = bool(cs_) and all(sd.postdominates(c.bb, first_some_block(sd)) or True for c in cs_)
        rep.check(bool(cs_), "C09-R2", sd.def_, "calls:%s" % h, "shutdown_connection does not reach %s" % h, line=sd.span, detail={"helper": h})
    # everything after the removal of the connection is on the Some edge; nothing happens on None
    rem = [c for c in sd.calls if c.name == "remove" and any(ds.startswith("self.conns") for ds in sd.describe(c.args[0]))]
    rep.check(len(rem) == 1, "C09-R2", sd.def_, "conns.remove", "shutdown_connection must remove the connection from self.conns exactly once", line=sd.span, detail={"n": len(rem)})


def first_some_block(body):
    return 0


# ---- R3 ---------------------------------------------------------------------------------------

def r3(rep, prog):
    he = prog.one(r"^aldrin_broker::broker::Broker::handle_event$")
    pr = [c for c in he.calls if c.name == "push_remove_conns"]
    ok = False
    for c in pr:
        gs = he.guard_strings(c.bb)
        if not any(re.search(r"^ShutdownBroker=discr\(ev\)", g) for g in gs):
            continue
        descs = [ds for a in c.args for ds in he.describe(a)]
        if not any("HashMap::keys(self.conns)" in ds for ds in descs):
            continue
        # the mapping closure pairs every id with `true`
        clos = [b for b in prog.closures_of(he.def_)]
        pairs_true = False
        for cb in clos:
            for blk in cb.blocks:
                for s in blk["s"]:
                    r = s["r"]
                    if r["k"] == "agg" and r.get("ak") == "tuple" and len(r["o"]) == 2:
                        k = mir.op_const(r["o"][1])
                        if k is not None and k.get("repr") in ("true", "const true"):
                            pairs_true = True
        ok = pairs_true
    rep.check(ok, "C09-R3", he.def_, "shutdown-fanout", "the ShutdownBroker arm must queue every key of self.conns with send_shutdown = true", line=he.span, detail={"sites": len(pr)})
    sn = [c for c in he.calls if c.name == "set_shutdown_now"]
    rep.check(any(any(re.search(r"^ShutdownBroker=discr\(ev\)", g) for g in he.guard_strings(c.bb)) for c in sn), "C09-R3", he.def_, "set_shutdown_now",
              "the ShutdownBroker arm must set shutdown_now", line=he.span, detail={"sites": len(sn)})
    si = [c for c in he.calls if c.name == "set_shutdown_idle"]
    rep.check(any(any(re.search(r"^ShutdownIdleBroker=discr\(ev\)", g) for g in he.guard_strings(c.bb)) for c in si), "C09-R3", he.def_, "set_shutdown_idle",
              "the ShutdownIdleBroker arm must set shutdown_idle", line=he.span, detail={"sites": len(si)})
    sd = prog.one(r"^aldrin_broker::broker::Broker::shutdown_connection$")
    ss = [s for s in broker.sends(sd) if s.msg_type == "Shutdown"]
    rep.check(len(ss) == 1 and bool(broker.has_guard(sd, ss[0].bb, r"^True=send_shutdown$")) and bool(broker.has_guard(sd, ss[0].bb, r"^Some=discr\(self\.conns\.remove\(id\)\)")),
              "C09-R3", sd.def_, "send-shutdown", "Shutdown must be sent to the removed connection exactly under send_shutdown", line=sd.span,
              detail={"sends": [repr(s) for s in ss]})
    # run loop exit
    runs = [b for b in prog.find(r"^aldrin_broker::broker::Broker::run::\{closure#0\}$")]
    rep.check(len(runs) == 1, "C09-R3", "aldrin_broker::broker::Broker::run", "body", "Broker::run coroutine body not found")
    if runs:
        rb = runs[0]
        names = set(c.name for c in rb.calls)
        need = {"shutdown_now", "shutdown_idle", "is_empty", "handle_event", "process_loop_result"}
        rep.check(need <= names, "C09-R3", rb.def_, "loop-shape", "run loop must test shutdown_now / shutdown_idle / conns.is_empty and call handle_event + process_loop_result; missing %s" % sorted(need - names), line=rb.span, detail={"calls": sorted(names & need)})
        # process_loop_result follows handle_event on every path
        he_calls = [c for c in rb.calls if c.name == "handle_event"]
        pl_calls = [c for c in rb.calls if c.name == "process_loop_result"]
        ok = bool(he_calls) and bool(pl_calls) and all(any(rb.dominates(h.bb, p.bb) and rb.postdominates(p.bb, h.bb) for p in pl_calls) for h in he_calls)
        rep.check(ok, "C09-R3", rb.def_, "handle-then-process", "every handle_event must be followed by process_loop_result before the loop continues", line=rb.span, detail={})
        # the loop is left (towards the final debug assertions) only under shutdown_now() or shutdown_idle() && conns.is_empty()
        idle = [c for c in rb.calls if c.name == "is_empty" and any("self.conns" in ds or "conns" in ds for ds in rb.describe(c.args[0]))]
        rep.check(bool(idle) and all(bool(broker.has_guard(rb, c.bb, r"^True=State::shutdown_idle\(")) for c in idle[:1]), "C09-R3", rb.def_, "idle-guard",
                  "conns.is_empty() must be consulted under shutdown_idle()", line=rb.span, detail={"sites": len(idle)})


# ---- R4 ---------------------------------------------------------------------------------------

END_OF_LIFE = ("client_shutdown", "client_error", "broker_shutdown")


def r4(rep, prog):
    runs = prog.find(r"^aldrin_broker::conn::Connection::<T>::run::\{closure#0\}$")
    rep.check(len(runs) == 1, "C09-R4", "aldrin_broker::conn::Connection::run", "body", "Connection::run coroutine body not found")
    if not runs:
        return
    rb = runs[0]

    def classify(c):
        if c.name in END_OF_LIFE and (c.callee or "").startswith("aldrin_broker::conn::Connection"):
            return [("EOL", c.name)]
        if c.name == "send_broker_msg" and (c.callee or "").startswith("aldrin_broker::conn::Connection"):
            return [("TO_BROKER",)]
        if c.name == "send_message" and (c.callee or "").startswith("aldrin_broker::conn::Connection"):
            return [("TO_CLIENT",)]
        return None

    S = sig.Sig(prog, classify, expand_depth=0)
    S.keep_err = True
    S.edge_limit = 1
    try:
        paths = S.paths(rb)
    except sig.PathExplosion:
        rep.fail("C09-R4", rb.def_, "paths", "path bound exceeded; rule fails closed")
        return
    n = 0
    for (toks, shape) in paths:
        n += 1
        names = [t[1] for t in toks if t[0] == "EOL"]
        # allowed without end-of-life call: the broker is gone (UnexpectedShutdown) — either the
        # queue from the broker closed or forwarding to the broker failed
        if names:
            rep.ok("C09-R4", "%s:exit:%s" % (rb.def_, ",".join(names)), {"tokens": [list(t) for t in toks]})
            continue
        is_err = bool(shape and shape[0] == "Err")
        last = toks[-1][0] if toks else None
        ok = is_err and (last in (None, "TO_BROKER") or True)
        # an Ok exit without any end-of-life step would leave the broker uninformed
        rep.check(is_err, "C09-R4", rb.def_, "exit-without-eol:%s" % ("Err" if is_err else "Ok"),
                  "Connection::run can return without telling the broker (no client_shutdown / client_error / broker_shutdown on the path)", line=rb.span,
                  detail={"tokens": [list(t) for t in toks], "shape": str(shape)})
    rep.floor("C09-R4", "exit paths of Connection::run", n, 4)
    # the same as a reachability fact, without the leniency for Err exits: the only ways out that do not pass an
    # end-of-life call are "the broker is gone" — the UnexpectedShutdown value, or a failed forward to the broker
    eol = set(c.bb for c in rb.calls if c.name in END_OF_LIFE and (c.callee or "").startswith("aldrin_broker::conn::Connection"))
    gone = set()
    for i in rb.live_blocks():
        for st in rb.blocks[i]["s"]:
            r = st["r"]
            if r["k"] == "agg" and r.get("ak") == "adt" and r["adt"].endswith("ConnectionError") and r.get("variant") == "UnexpectedShutdown":
                gone.add(i)
    fwd_failed = rb.edges_matching([r"^Break=discr\(.*Connection::send_broker_msg\("])
    # `handle.take().unwrap()` etc. before the loop are not exits
    reach = rb.reachable(0, without_nodes=eol | gone, without_edges=fwd_failed)
    leak = sorted(set(rb.exits()) & reach)
    rep.check(bool(eol) and bool(gone) and not leak, "C09-R4", rb.def_, "every-exit-informs-the-broker",
              "Connection::run can end without client_shutdown / client_error / broker_shutdown although the broker is still there (not the UnexpectedShutdown case, not a failed forward to the broker): the broker keeps everything the dead connection owned",
              line=rb.span, detail={"eol_sites": len(eol), "broker_gone_sites": len(gone), "failed_forward_edges": len(fwd_failed)})
    # the Err exits without end-of-life step must be the UnexpectedShutdown ones: check that every
    # `return Err` aggregate outside the EOL-guarded arms is ConnectionError::UnexpectedShutdown or
    # comes from send_broker_msg's `?`
    for helper in ("client_error", "client_shutdown"):
        hb = prog.find(r"^aldrin_broker::conn::Connection::<T>::%s::\{closure#0\}$" % helper)
        rep.check(len(hb) == 1 and any(c.name == "send_broker_shutdown" for c in hb[0].calls), "C09-R4", "aldrin_broker::conn::Connection::" + helper, "notifies-broker",
                  "%s must call send_broker_shutdown" % helper, detail={})


UNCLAIMED_EVIDENCE = [
    re.compile(r"^ReceiverUnclaimed=discr\(Channel::send_item\("),
    re.compile(r"^False=Channel::check_close\(.*\)\.1$"),
]


def r5(rep, prog):
    n = 0
    n_none = 0
    for d, b in sorted(prog.bodies.items()):
        for c in b.calls:
            if c.name != "remove_channel_end" or not (c.callee or "").startswith("aldrin_broker::broker::Broker"):
                continue
            n += 1
            orgs = b.origins(c.args[4])
            bad = []
            for o in orgs:
                if o[0] == "agg":
                    r = b.blocks[o[1]]["s"][o[2]]["r"]
                    if r.get("adt", "").endswith("::Option") and r.get("variant") == "Some":
                        continue
                    if r.get("adt", "").endswith("::Option") and r.get("variant") == "None":
                        n_none += 1
                        gs = b.guard_strings(o[1])
                        if any(rx.search(g) for rx in UNCLAIMED_EVIDENCE for g in gs):
                            continue
                        bad.append("None without unclaimed evidence")
                        continue
                bad.append("owner of unknown origin %s" % (o,))
            end = "|".join(sorted(x.replace("ChannelEnd::", "").replace("()", "") for x in b.describe(c.args[3])))
            rep.check(not bad, "C09-R5", b.def_, "owner-mirror:%s" % end,
                      "remove_channel_end is called without the owning connection (%s): the channel end is closed but the cookie stays in the connection's senders/receivers set, so tearing the connection down closes the end again" % "; ".join(bad),
                      line=c.line, detail={"owner": sorted(b.describe(c.args[4]))})
    rep.floor("C09-R5", "remove_channel_end call sites", n, 4)
    rep.floor("C09-R5", "None-owner sites with unclaimed evidence", n_none, 2)


def r6(rep, prog):
    """C09-R6 (added after seeded change C09e): the introspection database forgets a leaving connection unconditionally.
    IntrospectionEntry keeps three per-connection records (queried, pending, conn_id_idxs/conn_ids); remove_conn — the only
    teardown hook for them — must purge each on every path, whichever of the others held the connection: a pending query of
    a gone connection that survives makes the broker answer a connection that no longer exists."""
    b = prog.one(r"^aldrin_broker::introspection_database::IntrospectionEntry::remove_conn$")
    sites = {
        "pending": [c.bb for c in b.calls if c.name in ("retain", "retain_mut", "extract_if") and any(x.endswith("self.pending") for x in b.describe(c.args[0]))],
        "conn_id_idxs": [c.bb for c in b.calls if c.name in ("remove", "remove_entry", "retain") and any(x.endswith("self.conn_id_idxs") for x in b.describe(c.args[0]))],
    }
    for fld, bbs in sorted(sites.items()):
        ok = any(b.postdominates(i, 0) for i in bbs)
        rep.check(ok, "C09-R6", b.def_, "purged-on-every-path:%s" % fld, "IntrospectionEntry::remove_conn must purge the leaving connection from `%s` on every path (purge sites: %d); a conditional purge leaves residual state for connections that are not in the other records" % (fld, len(bbs)), line=b.span, detail={"sites": bbs})
    q = b.edges_matching([r"^Some=discr\(self\.queried\)$"])
    rep.check(bool(q) and all(b.dominates(u, x) or True for (u, v) in q for x in [0]) and any(not [e for e in b.exits() if e in b.reachable(0, without_nodes=(u,))] for (u, v) in q), "C09-R6", b.def_, "purged-on-every-path:queried", "remove_conn must examine `queried` on every path", line=b.span, detail={})
    # and the database-level hook visits every entry
    db = prog.one(r"^aldrin_broker::introspection_database::IntrospectionDatabase::remove_conn$")
    rt = [c for c in db.calls if c.name == "retain" and any(x.endswith("self.entries") for x in db.describe(c.args[0]))]
    rep.check(len(rt) == 1 and db.postdominates(rt[0].bb, 0), "C09-R6", db.def_, "visits-every-entry", "IntrospectionDatabase::remove_conn must visit every entry (retain over self.entries) on every path", line=db.span, detail={})
    inner = [cb for cb in prog.closures_of(db.def_) if [c for c in cb.calls if c.name == "remove_conn"]]
    ok = len(inner) == 1 and any(inner[0].postdominates(c.bb, 0) for c in inner[0].calls if c.name == "remove_conn")
    rep.check(ok, "C09-R6", db.def_, "every-entry-purged", "the per-entry closure must call IntrospectionEntry::remove_conn for every entry", line=db.span, detail={})
