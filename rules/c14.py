"""C14 — byte-stream framing (narrow: the structural clauses of the stream transport and the buffer in front of it)."""
import re

import engine
import mir

EXPLANATION = (
    "NARROW claim: guard / order rules over core/src/tokio.rs, core/src/transport/buffered.rs and Packetizer::next_message (rustc MIR). Decided, for every "
    "path of these functions: (R1) receive: an empty read is reported as Io(UnexpectedEof); bytes are accounted to the packetizer only on the non-empty Ok edge, "
    "by the length of the very ReadBuf that was filled, which was built from the packetizer's own spare capacity; a message is produced only from the Some edge of "
    "next_message; (R2) flush: a zero-length write is reported as Io(WriteZero); the write buffer is advanced by exactly the count the write returned; the "
    "underlying flush is polled only once the write buffer is empty, and Ready(Ok) is produced by nothing else; (R3) send_start replaces the write buffer only "
    "when it is empty and appends otherwise, on every accepting path; send_poll_ready skips flushing only below the backpressure boundary; (R4) the message "
    "buffer in front of a transport is FIFO (push_back / pop_front), hands a message on only after the inner transport reported ready, flushes the inner "
    "transport only once the buffer is empty and never reports Ready(Ok) otherwise, and send_start enqueues on every path; (R5) next_message returns a frame only "
    "on the true edge of `len <= buffered bytes`, resets the cached length on that edge and caches it when first read; (R6) spare_capacity_mut hands out its slice without reserving only after a test that involves the buffer's capacity, and "
    "reserves at least a constant minimum. These are the clauses 'reports "
    "end-of-stream and zero-length writes as errors', 'a flush returns only after all earlier messages were written', 'each frame only once it is complete' and "
    "the order part of 'once and in order'. NOT decided (the larger part): independence of the result from the fragmentation (arithmetic over runtime lengths "
    "and sequences of I/O results), the unsafe length bookkeeping of the packetizer, third-party I/O types."
)

T = r"<aldrin_core::tokio::TokioTransport<T> as aldrin_core::transport::AsyncTransport>::"
B = r"<aldrin_core::transport::buffered::Buffered<T> as aldrin_core::transport::AsyncTransport>::"


def aggs(b, adt_suffix, variant):
    out = []
    for i in sorted(b.live_blocks()):
        for st in b.blocks[i]["s"]:
            r = st["r"]
            if r["k"] == "agg" and r.get("ak") == "adt" and r["adt"].endswith(adt_suffix) and r.get("variant") == variant:
                out.append((i, st))
    return out


def has(gs, rx):
    return any(re.search(rx, g) for g in gs)


def ready_ok_blocks(b):
    """blocks that build Poll::Ready(Ok(..)) themselves"""
    out = []
    for (i, st) in aggs(b, "::Poll", "Ready"):
        if any(re.match(r"^Result::Ok\(", d) for d in b.describe(st["r"]["o"][0])):
            out.append(i)
    return out


def run(rep):
    rep.explanation = EXPLANATION
    rep.trusted = ["rustc nightly MIR", "tokio AsyncRead/AsyncWrite contracts (poll_read fills the ReadBuf, poll_write returns the count written)", "VecDeque / BytesMut semantics"]
    prog = mir.Program(engine.ensure_facts(engine.config_for("C14")), crates=["aldrin_core"])
    feats = prog.features.get("aldrin_core", [])
    if "tokio" not in feats:
        rep.fail("C14-R1", "<config>", "tokio", "the analysed build of aldrin_core lacks the `tokio` feature (features: %s)" % feats)
        return

    # ---- R1 receive ---------------------------------------------------------------------------------
    rp = prog.one("^" + re.escape(T) + "receive_poll$")
    READ = r"AsyncRead::poll_read\(.*ReadBuf::uninit\(Packetizer::spare_capacity_mut\(.*packetizer\)\)\)"
    eof = [(i, st) for (i, st) in aggs(rp, "TokioTransportError", "Io") if any("UnexpectedEof" in d for d in rp.describe(st["r"]["o"][0]))]
    ok = len(eof) == 1 and has(rp.guard_strings(eof[0][0]), r"^True=slice::is_empty\(ReadBuf::filled\(") and has(rp.guard_strings(eof[0][0]), r"^Ok=discr\(" + READ)
    rep.check(ok, "C14-R1", rp.def_, "eof-is-an-error", "an empty read (end of stream) must be reported as Io(UnexpectedEof), on the Ok edge of the read with an empty filled part", line=rp.span, detail={"sites": len(eof)})
    if ok:
        errs = [i for (i, st) in aggs(rp, "::Result", "Err") if rp.reaches(eof[0][0], i)]
        rdy = [i for (i, st) in aggs(rp, "::Poll", "Ready") if any(rp.reaches(e, i) for e in errs)]
        rep.check(bool(errs) and bool(rdy) and not any(c.bb for c in rp.calls if c.name == "poll_read" and rp.reaches(eof[0][0], c.bb)), "C14-R1", rp.def_, "eof-returns", "after an empty read the function must return Ready(Err(..)) without reading again", detail={})
    bw = [c for c in rp.calls if c.name == "bytes_written"]
    ok = len(bw) == 1
    if ok:
        g = rp.guard_strings(bw[0].bb)
        ok = has(g, r"^False=slice::is_empty\(ReadBuf::filled\(") and has(g, r"^Ok=discr\(" + READ) and all(re.match(r"^slice::len\(ReadBuf::filled\(ReadBuf::uninit\(Packetizer::spare_capacity_mut\(", d) for d in rp.describe(bw[0].args[1]))
    rep.check(ok, "C14-R1", rp.def_, "bytes-accounted-as-read", "bytes must be accounted to the packetizer only after a non-empty successful read, by the filled length of the ReadBuf built from the packetizer's spare capacity", detail={"sites": len(bw)})
    dm = [c for c in rp.calls if c.name == "deserialize_message"]
    ok = len(dm) == 1 and has(rp.guard_strings(dm[0].bb), r"^Some=discr\(Packetizer::next_message\(") and all(re.match(r"^Packetizer::next_message\(.*\)\.0$", d) for d in rp.describe(dm[0].args[0]))
    rep.check(ok, "C14-R1", rp.def_, "message-from-complete-frame", "a message must be decoded only from a frame that next_message returned", detail={})
    rep.check(len(ready_ok_blocks(rp)) == 0, "C14-R1", rp.def_, "no-other-ok", "receive_poll must not produce Ready(Ok(..)) by any other route", detail={})

    # ---- R2 flush ------------------------------------------------------------------------------------
    fl = prog.one("^" + re.escape(T) + "send_poll_flush$")
    WR = r"AsyncWrite::poll_write\(.*write_buf\)"
    wz = [(i, st) for (i, st) in aggs(fl, "TokioTransportError", "Io") if any("WriteZero" in d for d in fl.describe(st["r"]["o"][0]))]
    ok = len(wz) == 1 and has(fl.guard_strings(wz[0][0]), r"^0=int\(" + WR + r"\.0\.0\)$") and has(fl.guard_strings(wz[0][0]), r"^Ok=discr\(" + WR)
    rep.check(ok, "C14-R2", fl.def_, "write-zero-is-an-error", "a write that accepted zero bytes must be reported as Io(WriteZero)", line=fl.span, detail={"sites": len(wz)})
    adv = [c for c in fl.calls if c.name == "advance"]
    ok = len(adv) == 1 and all(re.search(r"write_buf$", d) for d in fl.describe(adv[0].args[0])) and all(re.match("^" + WR + r"\.0\.0$", d) for d in fl.describe(adv[0].args[1])) \
        and has(fl.guard_strings(adv[0].bb), r"^otherwise=int\(" + WR + r"\.0\.0\)$")
    rep.check(ok, "C14-R2", fl.def_, "advance-by-written", "the write buffer must be advanced by exactly the count the write returned", detail={"sites": len(adv)})
    pf = [c for c in fl.calls if c.name == "poll_flush"]
    ok = len(pf) == 1 and has(fl.guard_strings(pf[0].bb), r"^True=BytesMut::is_empty\(.*write_buf\)$")
    rep.check(ok, "C14-R2", fl.def_, "flush-after-all-written", "the underlying writer must be flushed only once the write buffer is empty", detail={"sites": len(pf)})
    rep.check(len(ready_ok_blocks(fl)) == 0, "C14-R2", fl.def_, "ok-only-through-flush", "send_poll_flush must report Ready(Ok) only as the result of the underlying flush", detail={})
    pw = [c for c in fl.calls if c.name == "poll_write"]
    ok = len(pw) == 1 and has(fl.guard_strings(pw[0].bb), r"^False=BytesMut::is_empty\(.*write_buf\)$") and all(re.search(r"write_buf$", d) for d in fl.describe(pw[0].args[2]))
    rep.check(ok, "C14-R2", fl.def_, "writes-the-buffer", "the loop must write the write buffer while it is non-empty", detail={})

    # ---- R3 send_start / send_poll_ready --------------------------------------------------------------
    ss = prog.one("^" + re.escape(T) + "send_start$")
    stores = []
    for i in sorted(ss.live_blocks()):
        for st in ss.blocks[i]["s"]:
            if ".write_buf" in st["d"] and st["d"][-1] == "*":
                stores.append(i)
    ext = [c for c in ss.calls if c.name in ("extend_from_slice", "put_slice", "put", "unsplit") and any(re.search(r"write_buf$", d) for d in ss.describe(c.args[0]))]
    ok = len(stores) == 1 and len(ext) == 1 and has(ss.guard_strings(stores[0]), r"^True=BytesMut::is_empty\(.*write_buf\)$") and has(ss.guard_strings(ext[0].bb), r"^False=BytesMut::is_empty\(.*write_buf\)$") \
        and any(re.search(r"serialize_message\(msg\)", d) for d in ss.describe(ext[0].args[1]))
    rep.check(ok, "C14-R3", ss.def_, "append-or-replace-when-empty", "send_start must replace the write buffer only when it is empty and append the serialized message otherwise", line=ss.span, detail={"stores": len(stores), "appends": len(ext)})
    if ok:
        err = ss.edges_matching([r"^Break=discr\("])
        esc = set(ss.exits()) & ss.reachable(0, without_nodes={stores[0], ext[0].bb}, without_edges=err)
        rep.check(not esc, "C14-R3", ss.def_, "every-message-buffered", "every accepting path of send_start must put the message into the write buffer", detail={})
    sr = prog.one("^" + re.escape(T) + "send_poll_ready$")
    ro = ready_ok_blocks(sr)
    ok = len(ro) == 1 and has(sr.guard_strings(ro[0]), r"^True=Lt\(BytesMut::len\(self\.write_buf\), const:aldrin_core::tokio::BACKPRESSURE_BOUNDARY\)$") \
        and any(c.name == "send_poll_flush" and has(sr.guard_strings(c.bb), r"^False=Lt\(BytesMut::len\(self\.write_buf\), const:aldrin_core::tokio::BACKPRESSURE_BOUNDARY\)$") for c in sr.calls)
    rep.check(ok, "C14-R3", sr.def_, "backpressure-boundary", "send_poll_ready may skip flushing only below the backpressure boundary and must flush at or above it", detail={})

    # ---- R4 message buffer in front of a transport ----------------------------------------------------------
    bs = prog.one("^" + re.escape(B) + "send_start$")
    pb = [c for c in bs.calls if c.name == "push_back" and all(d == "msg" for d in bs.describe(c.args[1]))]
    ok = len(pb) == 1 and not (set(bs.exits()) & bs.reachable(0, without_nodes={pb[0].bb})) and not [c for c in bs.calls if c.name in ("push_front", "insert", "clear", "pop_front", "pop_back")]
    rep.check(ok, "C14-R4", bs.def_, "enqueue-at-back", "send_start of the buffer must append the message at the back on every path", detail={})
    bf = prog.one("^" + re.escape(B) + "send_poll_flush$")
    pop = [c for c in bf.calls if c.name in ("pop_front", "pop_back", "remove", "swap_remove_front", "swap_remove_back")]
    ok = len(pop) == 1 and pop[0].name == "pop_front"
    if ok:
        g = bf.guard_strings(pop[0].bb)
        ok = has(g, r"^Ok=discr\(AsyncTransport::send_poll_ready\(.*inner, cx\)\.0\)$") and has(g, r"^False=VecDeque::is_empty\(")
    rep.check(ok, "C14-R4", bf.def_, "dequeue-front-when-ready", "messages must leave the buffer at the front and only after the inner transport reported ready", detail={"sites": [c.name for c in pop]})
    st_ = [c for c in bf.calls if c.name == "send_start"]
    ok = len(st_) == 1 and all(re.match(r"^VecDeque::pop_front\(.*buffer\)", d) for d in bf.describe(st_[0].args[1])) and bool(pop) and bf.dominates(pop[0].bb, st_[0].bb)
    rep.check(ok, "C14-R4", bf.def_, "popped-is-sent", "the message taken from the buffer must be the one handed to the inner transport", detail={})
    inf = [c for c in bf.calls if c.name == "send_poll_flush"]
    ok = len(inf) == 1 and has(bf.guard_strings(inf[0].bb), r"^True=VecDeque::is_empty\(") and len(ready_ok_blocks(bf)) == 0
    rep.check(ok, "C14-R4", bf.def_, "inner-flush-after-drain", "the inner transport must be flushed only once the buffer is empty, and Ready(Ok) reported only as its result", detail={})
    br = prog.one("^" + re.escape(B) + "receive_poll$")
    rep.check(any(c.name == "receive_poll" and c.dest == [0] for c in br.calls), "C14-R4", br.def_, "receive-delegates", "receiving must be delegated to the inner transport unchanged", detail={})

    # ---- R5 frame extraction ----------------------------------------------------------------------------
    nm = prog.one(r"^aldrin_core::message::packetizer::Packetizer::next_message$")
    somes = [(i, st) for (i, st) in aggs(nm, "::Option", "Some") if st["d"] == [0]]
    LEN = r"(self\.len\.0|Buf::get_u32_le\(Index::index\(self\.buf, RangeTo::RangeTo\(const:4_usize\)\)\))"
    ok = len(somes) == 1 and has(nm.guard_strings(somes[0][0]), r"^True=Le\(" + LEN + r", BytesMut::len\(self\.buf\)\)$") and has(nm.guard_strings(somes[0][0]), r"^True=Ge\(BytesMut::len\(self\.buf\), const:4_usize\)$")
    rep.check(ok, "C14-R5", nm.def_, "frame-only-when-complete", "next_message must return a frame only when at least the announced number of bytes (and the 4-byte prefix) is buffered", line=nm.span, detail={"sites": len(somes)})
    resets = []
    caches = []
    for i in sorted(nm.live_blocks()):
        for st in nm.blocks[i]["s"]:
            if st["d"][-1:] == [".len"] and st["d"][0] == 1:
                ds = set()
                if st["r"]["k"] == "use":
                    ds = nm.describe(st["r"]["o"][0])
                elif st["r"]["k"] == "agg":
                    ds = {"Option::%s" % st["r"].get("variant")}
                if any(d.startswith("Option::None") for d in ds):
                    resets.append(i)
                if any(d.startswith("Option::Some") for d in ds):
                    caches.append(i)
    ok = len(resets) == 1 and bool(somes) and (resets[0] == somes[0][0] or nm.dominates(resets[0], somes[0][0]) or nm.dominates(somes[0][0], resets[0])) and has(nm.guard_strings(resets[0]), r"^True=Le\(" + LEN)
    rep.check(ok, "C14-R5", nm.def_, "cached-length-reset", "the cached frame length must be cleared exactly when a frame is handed out (otherwise the next frame is cut with the old length)", detail={"resets": len(resets)})
    ok = len(caches) == 1 and has(nm.guard_strings(caches[0]), r"^None=discr\(self\.len\)$")
    rep.check(ok, "C14-R5", nm.def_, "length-cached-once", "the frame length must be cached when first read (on the None edge of the cache)", detail={"caches": len(caches)})
    sp = [c for c in nm.calls if c.name == "split_to"]
    tr = [c for c in nm.calls if c.name == "truncate"]
    ok = len(sp) == 1 and len(tr) == 1 and all(re.match(r"^Ord::max\(.*, const:4_usize\)$", d) for d in nm.describe(sp[0].args[1])) and all(re.match("^" + LEN + "$", d) for d in nm.describe(tr[0].args[1]))
    rep.check(ok, "C14-R5", nm.def_, "split-exact", "the frame must be split off with max(len, 4) bytes and truncated to len (no byte lost or duplicated between frames)", detail={})

    # ---- R6 the zero-copy input interface hands out room ---------------------------------------------------
    # spare_capacity_mut documents "guaranteed to be non-empty" (receive_poll would read 0 bytes into an empty slice and
    # report a spurious end of stream). Whether room is left is a relation between capacity and length; decided here is the
    # necessary shape: every path that hands out the slice without reserving has crossed a test that involves the buffer's
    # capacity, and every reservation asks for a constant positive minimum or a clamped amount.
    sc = prog.one(r"^aldrin_core::message::packetizer::Packetizer::spare_capacity_mut$")
    out = [c for c in sc.calls if c.name == "spare_capacity_mut" and "BytesMut" in (c.callee or c.full or "")]
    res = [c for c in sc.calls if c.name == "reserve"]
    ok = len(out) == 1 and bool(res)
    if ok:
        capedges = sc.edges_matching([r"BytesMut::capacity\(self\.buf\)"])
        reach = sc.reachable(0, without_nodes=set(c.bb for c in res), without_edges=capedges)
        ok = out[0].bb not in reach
    rep.check(ok, "C14-R6", sc.def_, "room-decided-by-capacity", "every path that hands out the spare slice without reserving must have tested the buffer's capacity (a decision that ignores the capacity cannot guarantee a non-empty slice; an empty one is read as end of stream)",
              line=sc.span, detail={"reserve_sites": len(res)})
    for c in res:
        ds = sc.describe(c.args[1])
        ok = all(re.search(r"MIN_RESERVE_CAPACITY|Ord::clamp\(", d) for d in ds)
        rep.check(ok, "C14-R6", sc.def_, "reserve-positive", "a reservation must ask for at least the constant minimum (or a clamped amount); asks for %s" % sorted(ds), detail={})

    # ---- R7 length subtractions are ordered (added after seeded change C14d) ---------------------------------------------
    # "delivers exactly the frames that were written": a usize subtraction of two runtime lengths in the framing code
    # that is not dominated by a test ordering them underflows for some chunking (panic in debug, absurd reservation in
    # release) and the stream stops delivering.  Accepted: a dominating edge minuend > / >= subtrahend, or minuend >
    # / >= the capacity of the buffer whose length is subtracted (capacity >= len), or a constant subtrahend under a
    # dominating test against a constant.  checked_/saturating_/wrapping_sub are calls, not Sub, and are not flagged.
    n7 = 0
    for d, b in sorted(prog.bodies.items()):
        if "::test" in d or not re.match(r"^(<?aldrin_core::message::packetizer::|<?aldrin_core::transport::buffered::|<?aldrin_core::tokio::|<aldrin_core::(tokio|transport::buffered)::)", d):
            continue
        for i in sorted(b.live_blocks()):
            for st in b.blocks[i]["s"]:
                r = st["r"]
                if r["k"] != "bin" or r["op"] not in ("Sub", "SubWithOverflow", "SubUnchecked"):
                    continue
                if "usize" not in (b.local_ty(st["d"][0]) or "usize"):
                    continue
                MA = sorted(b.describe(r["o"][0]))
                SB = sorted(b.describe(r["o"][1]))
                if not MA or not SB:
                    continue
                n7 += 1
                gs = b.guard_strings(i)
                ok = False
                for a in MA:
                    for bb_ in SB:
                        alts = [bb_, re.sub(r"::len\(", "::capacity(", bb_)]
                        for x in alts:
                            for op in ("Gt", "Ge"):
                                if "True=%s(%s, %s)" % (op, a, x) in gs:
                                    ok = True
                        if bb_.startswith("const:") and any(g.startswith("True=Gt(%s, const:" % a) or g.startswith("True=Ge(%s, const:" % a) for g in gs):
                            ok = True
                rep.check(ok, "C14-R7", d, "ordered-subtraction:%s-%s" % ("|".join(MA), "|".join(SB)),
                          "a subtraction of runtime lengths in the framing code must be dominated by a test that orders its operands (minuend >= subtrahend, or minuend >= the capacity of the buffer whose length is subtracted); %s - %s is only guarded by %s" % (MA, SB, [g for g in gs if g.startswith(("True", "False", "Some"))][:4]),
                          line=st["l"], detail={"guards": gs[:12]})
    rep.floor("C14-R7", "length subtractions in the framing code", n7, 1)
