"""C15 — client termination: every pending operation resolves (narrow: error discipline and ownership facts)."""
import os
import re
import tomllib

import engine
import mir

EXPLANATION = (
    "NARROW claim: error-discipline and ownership rules over the aldrin client crate (rustc MIR, pre-coroutine bodies of the async fns). Decided: (R1) at every "
    "site where a futures oneshot::Receiver is polled / awaited (27 today) the Canceled outcome — which is what a pending operation observes when the client stops "
    "and drops the reply sender — is converted to Error::Shutdown (map_err with a closure building that variant, or an Err arm building it), or the Result is "
    "handed unchanged to callers that all do so, or the site is a listed exception with its reason; no site unwraps it; (R2) no result of a request send on the "
    "handle channel (49 sites) is unwrapped: it is converted to Error::Shutdown, tested, or deliberately discarded (fire-and-forget drop requests); (R3) "
    "Client::run consumes the client by value, every field of Client that can hold a reply sender is plainly owned (no Arc / Rc / 'static), and drain_transport "
    "drops handle requests instead of serving them — so returning from run drops every pending reply sender; (R4) handle reference counting: Handle::clone / "
    "Drop send HandleCloned / HandleDropped, the client adds / subtracts one, and the run loop leaves when only the client's own handle is left; (R5) in the run loop and while draining, every Err outcome of the select "
    "(receive or flush error) leads to Err(RunError::Transport(..)) and never back into the loop; (R6) the broker-side connection task informs the broker on every exit unless the broker is gone "
    "(C09-R4, re-evaluated here). NOT decided (the larger part): that nothing hangs at any fault point (liveness over schedules)."
)


def closure_of(prog, b, operand):
    for o in b.origins(operand):
        if o[0] == "agg":
            r = b.blocks[o[1]]["s"][o[2]]["r"]
            if r.get("ak") == "closure":
                return prog.body(r["def"])
    return None


def shutdown_blocks(b):
    out = []
    for i in b.live_blocks():
        for st in b.blocks[i]["s"]:
            r = st["r"]
            if r["k"] == "agg" and r.get("ak") == "adt" and r["adt"].endswith("error::Error") and r.get("variant") == "Shutdown":
                out.append(i)
    return out


def consumers(prog, b, c):
    """how the result of call c is consumed in b"""
    how = []
    for m in b.calls:
        if m is c or not m.args or ("call", c.bb) not in b.origins(m.args[0]):
            continue
        if m.name == "map_err":
            cb = closure_of(prog, b, m.args[1])
            how.append("map_err->Shutdown" if cb is not None and shutdown_blocks(cb) else "map_err->other")
        elif m.name in ("unwrap", "expect", "unwrap_unchecked", "unwrap_or_default", "unwrap_or", "unwrap_or_else"):
            how.append("unwrap")
        elif m.name in ("is_ok", "is_err", "ok", "map", "branch", "from_residual"):
            how.append(m.name)
    return how


def run(rep):
    rep.explanation = EXPLANATION
    rep.trusted = ["rustc nightly MIR", "futures_channel: dropping a oneshot::Sender makes the Receiver resolve to Err(Canceled); dropping an UnboundedReceiver makes unbounded_send fail", "tables/c15.toml"]
    prog = mir.Program(engine.ensure_facts(engine.config_for("C15")), crates=["aldrin"])
    tab = tomllib.load(open(os.path.join(engine.VERIF, "tables", "c15.toml"), "rb"))
    passthrough = {e["fn"]: e["reason"] for e in tab["passthrough"]}
    seen_pt = set()
    n1 = 0
    for d, b in sorted(prog.bodies.items()):
        if "::test" in d:
            continue
        for c in b.calls:
            if c.name == "poll" and "oneshot::Receiver" in (c.full or ""):
                n1 += 1
                how = consumers(prog, b, c)
                err_arm = any(any(re.search(r"^Err=discr\(.*poll\(", g) for g in b.guard_strings(i)) for i in shutdown_blocks(b))
                ok = ("map_err->Shutdown" in how or err_arm) and "unwrap" not in how
                if d in passthrough:
                    seen_pt.add(d)
                    rep.ok("C15-R1", "%s:passthrough" % d, {"reason": passthrough[d]}, nontrivial=False)
                    ok2 = "unwrap" not in how
                    rep.check(ok2, "C15-R1", d, "cancel-not-unwrapped", "a cancelled reply channel must never be unwrapped", line=c.line, detail={"consumers": how})
                    continue
                rep.check(ok, "C15-R1", d, "cancel-becomes-shutdown", "the Canceled outcome of a reply channel (what a pending operation sees when the client stops) must be converted to Error::Shutdown here; consumers: %s" % how,
                          line=c.line, detail={"consumers": how, "err_arm": err_arm})
    rep.floor("C15-R1", "oneshot receiver poll sites", n1, 12)
    for f in passthrough:
        rep.check(f in seen_pt, "C15-R1", f, "exception-exists", "tables/c15.toml lists a site that no longer exists", detail={})
    # the pass-through wrapper's callers convert
    wt = [b for d, b in prog.bodies.items() if re.search(r"OneshotReceiver::<T>::wait_and_take$", d)]
    callers = 0
    for d, b in sorted(prog.bodies.items()):
        for c in b.calls:
            if c.name == "wait_and_take" and "OneshotReceiver" in (c.callee or ""):
                callers += 1
                # the awaited result of the wrapper future
                conv = [m for m in b.calls if m.name == "map_err" and closure_of(prog, b, m.args[1]) is not None and shutdown_blocks(closure_of(prog, b, m.args[1]))]
                rep.check(bool(conv), "C15-R1", d, "wrapper-caller-converts", "a caller of OneshotReceiver::wait_and_take must convert Canceled to Error::Shutdown", line=c.line, detail={})
    rep.floor("C15-R1", "callers of the pass-through wrapper", callers, 2)

    # ---- R2 request sends ------------------------------------------------------------------------------
    n2 = 0
    kinds = {}
    for d, b in sorted(prog.bodies.items()):
        if "::test" in d:
            continue
        for c in b.calls:
            if c.name in ("unbounded_send",) and "mpsc::UnboundedSender" in (c.full or c.callee or ""):
                n2 += 1
                how = consumers(prog, b, c)
                k = "converted" if "map_err->Shutdown" in how else ("tested" if "is_ok" in how or "is_err" in how else ("discarded" if not how else "other"))
                kinds[k] = kinds.get(k, 0) + 1
                rep.check("unwrap" not in how and "map_err->other" not in how, "C15-R2", d, "send-failure-handled", "a failed request / event send (peer gone) must become Error::Shutdown, be tested, or be discarded — never unwrapped or mapped to another error; consumers: %s" % how,
                          line=c.line, detail={"consumers": how, "class": k})
    rep.floor("C15-R2", "unbounded_send sites", n2, 24)
    rep.analysed["C15-R2:classes"] = kinds
    rep.check(kinds.get("converted", 0) >= 15, "C15-R2", "aldrin::handle::Handle", "converted-floor", "at least 15 request sends convert a failure to Error::Shutdown today; found %s" % kinds, detail=kinds)

    # ---- R3 ownership ------------------------------------------------------------------------------------
    rn = prog.one(r"^aldrin::client::Client::<T>::run$")
    rep.check(rn.locals[1]["ty"].startswith("aldrin::client::Client<"), "C15-R3", rn.def_, "run-consumes-client", "Client::run must take the client by value so that returning drops every pending reply sender; takes %s" % rn.locals[1]["ty"], detail={})
    a = prog.adt("aldrin::client::Client")
    flds = a["variants"][0]["fields"] if a else []
    rep.floor("C15-R3", "fields of Client", len(flds), 20)
    for f in flds:
        shared = re.search(r"\b(Arc|Rc|Weak)<|&'static", f["ty"])
        rep.check(not shared, "C15-R3", "aldrin::client::Client", "owned:%s" % f["name"], "field %s of Client is shared (%s): state that outlives run() could keep a reply sender alive and leave its operation hanging" % (f["name"], f["ty"]), detail={"ty": f["ty"]})
    dt = prog.find(r"^aldrin::client::Client::<T>::drain_transport::\{closure#0\}$")
    ok = len(dt) == 1 and not [c for c in dt[0].calls if c.name in ("handle_request", "handle_message")]
    rep.check(ok, "C15-R3", "aldrin::client::Client::drain_transport", "drain-drops-requests", "while draining, handle requests must be dropped, not served (their reply senders are dropped, so callers get Error::Shutdown)", detail={})

    # ---- R4 handle counting ------------------------------------------------------------------------------
    def sends_variant(b, variant):
        for c in b.calls:
            if c.name == "unbounded_send":
                if any(re.search(r"HandleRequest::%s\b" % variant, x) for x in b.describe(c.args[1])):
                    return True
        return False
    cl = prog.one(r"^<aldrin::handle::Handle as std::clone::Clone>::clone$")
    dr = prog.one(r"^<aldrin::handle::Handle as std::ops::Drop>::drop$")
    rep.check(sends_variant(cl, "HandleCloned"), "C15-R4", cl.def_, "clone-announced", "cloning a handle must tell the client (HandleCloned)", detail={})
    rep.check(sends_variant(dr, "HandleDropped"), "C15-R4", dr.def_, "drop-announced", "dropping a handle must tell the client (HandleDropped)", detail={})

    def delta(name):
        b = prog.one(r"^aldrin::client::Client::<T>::%s$" % name)
        out = []
        for i in b.live_blocks():
            for st in b.blocks[i]["s"]:
                r = st["r"]
                if r["k"] == "bin" and r["op"] in ("AddWithOverflow", "SubWithOverflow", "Add", "Sub") and any("self.num_handles" in x for x in b.describe(r["o"][0])):
                    k = mir.op_const(r["o"][1]) or {}
                    out.append((r["op"][:3], k.get("repr")))
        return b, out
    b1, d1 = delta("req_handle_cloned")
    b2, d2 = delta("req_handle_dropped")
    rep.check(d1 == [("Add", "1_usize")], "C15-R4", b1.def_, "count-up", "a cloned handle must add exactly one to num_handles; found %s" % d1, detail={})
    rep.check(d2 == [("Sub", "1_usize")], "C15-R4", b2.def_, "count-down", "a dropped handle must subtract exactly one from num_handles; found %s" % d2, detail={})
    rb = prog.find(r"^aldrin::client::Client::<T>::run::\{closure#0\}$")
    ok = len(rb) == 1
    if ok:
        b = rb[0]
        e = b.edges_matching([r"^True=Eq\(.*num_handles, const:1_usize\)$"])
        ok = len(e) == 1
        if ok:
            # from that edge the loop's select is not reached again
            sel = [c.bb for c in b.calls if c.name == "select" and "Client" in (c.callee or "")]
            (u, v) = list(e)[0]
            ok = len(sel) == 1 and b.reaches(sel[0], u) and sel[0] not in b.reachable(v)
    rep.check(ok, "C15-R4", "aldrin::client::Client::run", "last-handle-ends-run", "the run loop must leave when only the client's own handle is left (num_handles == 1)", detail={})

    # ---- R5 a transport error ends the client with that error -----------------------------------------------------
    # "its run future returns (ok for the clean cases, the transport error otherwise)": in the run loop and while draining,
    # every Err outcome of the select (receive error, flush error) leads to `Err(RunError::Transport(e))`; none is swallowed
    # and none leads back into the loop (which would wait forever on a dead transport).
    n5 = 0
    for rx in (r"^aldrin::client::Client::<T>::run::\{closure#0\}$", r"^aldrin::client::Client::<T>::drain_transport::\{closure#0\}$"):
        b = prog.one(rx)
        oks = b.edges_matching([r"^Ok=discr\(Future::poll\(Client::select\("])
        var = b.edges_matching([r"^(Transport|TransportFlushed)=discr\(Future::poll\(Client::select\(.*\)\.0\)$"])
        tr = set()
        for i in b.live_blocks():
            for st in b.blocks[i]["s"]:
                r = st["r"]
                if r["k"] == "agg" and r.get("ak") == "adt" and r["adt"].endswith("RunError") and r.get("variant") == "Transport":
                    tr.add(i)
        sel = set(c.bb for c in b.calls if c.name == "select" and "Client" in (c.callee or ""))
        for (u, v) in sorted(var):
            n5 += 1
            lab = "|".join(str(x) for x in (b.edge_label(u, v) or []))
            # without having seen Ok, neither the loop nor a normal return may be reached: only Err(RunError::Transport)
            back = sel & b.reachable(v, without_edges=oks)
            leak = set(b.exits()) & b.reachable(v, without_edges=oks, without_nodes=tr)
            rep.check(bool(tr) and not back and not leak, "C15-R5", b.def_, "transport-error-returned:%s" % lab,
                      "after a %s event the client may continue (or return normally) only on the Ok edge of its result; an error must end the client with Err(RunError::Transport(..)) — swallowing it leaves the client waiting forever on a dead transport" % lab,
                      detail={"edge": [u, v], "back_to_select": sorted(back), "normal_exit": sorted(leak)})
    rep.floor("C15-R5", "transport result events handled in run / drain_transport", n5, 4)

    # ---- R6 the broker side observes the connection as closed -------------------------------------------------------
    # decided by C09-R4 on the connection task (every exit of Connection::run informs the broker unless the broker is gone);
    # re-evaluated here because it is the last clause of this property
    import broker as _broker
    import c09
    sub = engine.Report(rep.prop, rep.tier, rep.seed)
    c09.r4(sub, _broker.load(config=engine.config_for("C15")))
    pr = sub.per_rule.get("C09-R4", {"obligations": 0, "discharged": 0})
    for _ in range(pr["discharged"]):
        rep.ok("C15-R6", "C09-R4:premise", None, nontrivial=False, sample=False)
    rep.floor("C15-R6", "obligations taken from C09-R4", pr["obligations"], 4)
    for v in sub.violations:
        rep.fail("C15-R6", v["def"], "C09-R4:%s" % v["instance"], v["msg"], line=v.get("line"))
