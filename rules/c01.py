"""C01 — value codec round-trip and nesting limit (structural clauses)."""
import itertools
import os
import re
import tomllib

import callgraph
import codec
import engine
import mir
import sig

EXPLANATION = (
    "Static sibling cross-check of the writer and reader tables of aldrin_core's value codec plus a call-graph argument for the nesting limit, on rustc "
    "MIR. Decided: (R1) for each of the Value variants the serializer arm writes kind K (or opens the L2 writer for K with key tag X), and the "
    "deserializer's arms for K and for its legacy counterpart open the mirror reader with the same key tag and wrap the result into the SAME variant; the "
    "evaluated KeyTagImpl::VALUE_KIND_* constants equal the kinds of the arms; (R2) every L1/L2 writer phase produces, on each success path, a token "
    "sequence (kind, widths incl. const-generic varint width, length prefix, element marker / terminator, key, depth step, child) that is one of the "
    "reader's success paths; (R3) in the instance call graph of the codec (generic dispatch resolved by substitution) every strongly connected component "
    "that survives the removal of depth-guarded call edges consists of generic forwarding impls only — every data-driven recursion passes a depth check — "
    "and all three increment_depth bodies compare `depth <= MAX_VALUE_DEPTH` after `+= 1` and map failure to the nesting error; (R5) whole-value entry "
    "points reject trailing bytes; (R6) the three varint readers and the writer agree on the escape threshold `first > 255 - N` and the count expression. "
    "Not decided: that put_varint/try_get_varint and zigzag are inverse functions (arithmetic), float bit preservation beyond to_bits/from_bits pairing, "
    "HashMap equality semantics."
)


def norm(tokens):
    out = []
    for t in codec.merge_fixed(codec.strip(tokens)):
        if t[0] == "NEW":
            out.append(("D",) if t[1] == "depth" else ("D?", t[1]))
        elif t[0] == "DEPTH+1":
            out.append(("D",))
        elif t[0] == "CHILD":
            out.append(("C",))
        elif t[0] == "KEY":
            out.append(("KEY",))
        elif t[0] == "K":
            out.append(("K", re.sub(r"^aldrin_core::tags::key_impl::KeyTagImpl::", "", t[1])))
        else:
            out.append(t)
    # a depth step consumes no bytes: only the number of steps on the path matters, not its position
    nd = sum(1 for t in out if t == ("D",))
    return tuple(t for t in out if t != ("D",)) + ((("D", nd),) if nd else ())


def concat_paths(S, prog, defs):
    """cartesian concatenation of the success-path token tuples of the given functions"""
    sets = []
    for d in defs:
        b = prog.body(d)
        if b is None:
            return None, d
        sets.append([t for t in S.tokens(b)])
    out = set()
    for combo in itertools.product(*sets):
        out.add(norm(tuple(x for part in combo for x in part)))
    return out, None


def run(rep):
    rep.explanation = EXPLANATION
    rep.trusted = ["rustc nightly MIR, const evaluation of associated consts", "tables/c01.toml (frozen writer/reader pairings)", "std HashMap/HashSet equality semantics"]
    rep.assumptions = ["KeyTagImpl and the walkers' constructors are sealed / crate-private (witnesses W1, W3)"]
    fdir = engine.ensure_facts(engine.config_for("C01"))
    prog = mir.Program(fdir, crates=["aldrin_core"])
    tab = tomllib.load(open(os.path.join(engine.VERIF, "tables", "c01.toml"), "rb"))
    S = sig.Sig(prog, codec.codec_classify)

    # ---- R2 mirror shapes ---------------------------------------------------------------------------
    pairs = list(tab["pair"])
    for suf in tab["primitive_suffixes"]:
        pairs.append({"name": "prim-" + suf, "writer": [tab["S"] + "serialize_" + suf], "reader": [tab["D"] + "deserialize_" + suf]})
    n = 0
    for pr in pairs:
        w, miss = concat_paths(S, prog, pr["writer"])
        if w is None:
            rep.fail("C01-R2", miss, "mirror:%s" % pr["name"], "writer function of the pairing table not found (renamed or removed): tables/c01.toml must be re-confirmed")
            continue
        r, miss = concat_paths(S, prog, pr["reader"])
        if r is None:
            rep.fail("C01-R2", miss, "mirror:%s" % pr["name"], "reader function of the pairing table not found (renamed or removed): tables/c01.toml must be re-confirmed")
            continue
        n += 1
        if pr.get("nonempty_writer_paths_only"):
            w = set(x for x in w if sum(1 for t in x if t[0] == "X" and t[1] == "b") >= 1)
        rep.check(bool(w), "C01-R2", pr["writer"][0], "mirror:%s:writer-has-success-path" % pr["name"], "the writer has no success path", detail={})
        for wp in sorted(w, key=str):
            rep.check(wp in r, "C01-R2", pr["writer"][-1], "mirror:%s:%s" % (pr["name"], sig.fmt(wp)[:70]),
                      "the writer emits [%s] but no success path of the reader %s consumes that sequence; reader paths: %s" % (sig.fmt(wp), [x.split("::")[-1] for x in pr["reader"]], " | ".join(sorted(sig.fmt(x) for x in r))),
                      line=prog.body(pr["writer"][-1]).span, detail={"pair": pr["name"], "writer": sig.fmt(wp), "reader": sorted(sig.fmt(x) for x in r)})
    rep.floor("C01-R2", "writer/reader pairings", n, 43)

    # ---- R1 variant table -----------------------------------------------------------------------------
    ser = prog.one(r"^<&aldrin_core::value::Value as aldrin_core::serialize::Serialize<aldrin_core::tags::Value>>::serialize$")
    de = prog.one(r"^<aldrin_core::value::Value as aldrin_core::deserialize::Deserialize<aldrin_core::tags::Value>>::deserialize$")
    Sw = sig.Sig(prog, make_writer_classify(prog, ser.def_), expand_depth=7)
    Sw.stop_after = ("CTOR",)
    Sw.label_adts = ("aldrin_core::value::Value",)
    wtab = {}
    for toks in Sw.tokens(ser):
        idx = next((i for i, t in enumerate(toks) if t[0] == "@"), None)
        if idx is None:
            continue
        wtab.setdefault(toks[idx][1], []).append(toks[idx + 1:])
    dt, _ = codec.dispatch_table(prog, de)
    value_adt = prog.adt("aldrin_core::value::Value")
    variants = [v["name"] for v in value_adt["variants"]]
    rep.floor("C01-R1", "Value variants", len(variants), 28)
    kinds_adt = prog.adt("aldrin_core::value_kind::ValueKind")
    kind_names = [v["name"] for v in kinds_adt["variants"]]
    # evaluated VALUE_KIND_* constants of the 10 key tags
    kconst = {}
    for imp in prog.impls:
        if (imp.get("trait") or "").endswith("key_impl::KeyTagImpl") and imp["crate"] == "aldrin_core":
            tag = imp["self"].split("::")[-1]
            for it in imp["items"]:
                if it["kind"] == "const":
                    b = prog.body(it["def"])
                    if b is not None:
                        for i in sorted(b.live_blocks()):
                            for st in b.blocks[i]["s"]:
                                if st["d"] == [0] and st["r"]["k"] == "agg":
                                    kconst[(tag, it["name"])] = st["r"]["variant"]
    rep.floor("C01-R1", "evaluated VALUE_KIND constants", len(kconst), 40)
    for (tag, cname), k in sorted(kconst.items()):
        fam = {"VALUE_KIND_MAP1": "Map1", "VALUE_KIND_MAP2": "Map2", "VALUE_KIND_SET1": "Set1", "VALUE_KIND_SET2": "Set2"}[cname]
        rep.check(k == tag + fam, "C01-R1", "<aldrin_core::tags::%s as aldrin_core::tags::key_impl::KeyTagImpl>::%s" % (tag, cname), "kind-const", "key tag %s declares %s = %s, expected %s%s" % (tag, cname, k, tag, fam), detail={"value": k})
    # which Value variant each reader arm wraps into
    wraps = arm_wrappers(de)
    for v in variants:
        wr = wtab.get(v, [])
        if not wr:
            rep.fail("C01-R1", ser.def_, "variant:%s" % v, "no serializer arm found for Value::%s" % v)
            continue
        wd = set(writer_descriptor(prog, S, r_, kconst) for r_ in wr)
        if len(wd) != 1:
            rep.fail("C01-R1", ser.def_, "variant:%s" % v, "ambiguous writer descriptor %s" % sorted(map(str, wd)))
            continue
        (wkind, wdesc) = wd.pop()
        # reader arms for the written kind and for its legacy counterpart
        legacy = re.sub(r"2$", "1", wkind) if wkind.endswith("2") else None
        for k in [wkind] + ([legacy] if legacy and legacy in kind_names else []):
            rd = set(codec.descriptor(r_) for r_ in dt.get(k, []))
            want = mirror_of(wdesc, k)
            ok = want in rd and len(rd) == 1
            rep.check(ok, "C01-R1", de.def_, "variant:%s:kind:%s" % (v, k), "Value::%s is written as %s %s, but the reader's arm for %s is %s" % (v, wkind, wdesc, k, sorted(map(str, rd))), line=de.span,
                      detail={"variant": v, "written": [wkind, str(wdesc)], "kind": k, "reader": sorted(map(str, rd))})
            rep.check(wraps.get(k) == {v}, "C01-R1", de.def_, "variant:%s:wrap:%s" % (v, k), "the reader's arm for %s yields Value::%s, but that kind is what Value::%s serializes to" % (k, sorted(wraps.get(k, [])), v), line=de.span,
                      detail={"kind": k, "wrapped_into": sorted(wraps.get(k, []))})
    # every kind has a reader arm that ensures/reads that very kind
    for k in kind_names:
        rep.check(bool(dt.get(k)), "C01-R1", de.def_, "kind-arm:%s" % k, "no deserializer arm for ValueKind::%s" % k, detail={})
        for rest in dt.get(k, []):
            ens = [t for t in rest if t[0] == "KIND" and t[1] == "ensure"]
            okk = all(t[2] in ("ValueKind::" + k,) or t[2].endswith("VALUE_KIND_%s" % ("MAP" if "Map" in k else "SET") + k[-1]) for t in ens)
            rep.check(okk, "C01-R1", de.def_, "kind-arm-accepts:%s" % k, "the reader entry used for %s insists on a different kind: %s" % (k, ens), detail={"ensures": [t[2] for t in ens]})
    rep.exhaustive["C01-R1"] = True

    # ---- R3 depth guard on every cycle --------------------------------------------------------------------
    G = callgraph.Graph(prog).build()
    rep.analysed["callgraph_nodes"] = len(G.nodes)
    rep.analysed["callgraph_edges"] = sum(len(v) for v in G.edges.values())
    guarded_edges = sum(1 for es in G.edges.values() for e in es if e[1])
    rep.floor("C01-R3", "depth-guarded call edges", guarded_edges, 30)
    sccs = G.sccs(lambda a, b, g: not g)
    rep.analysed["unguarded_sccs"] = len(sccs)
    for comp in sccs:
        conc = [n for n in comp if G.is_concrete(n)]
        names = sorted(set(n[0] for n in comp))
        rep.check(not conc, "C01-R3", conc[0][0] if conc else names[0], "cycle-without-depth-step",
                  "recursion cycle without a depth check: %s can re-enter itself through %d functions none of whose call edges is dominated by increment_depth / a walker constructor" % (conc[0][0] if conc else "?", len(names)),
                  detail={"cycle": names[:12], "concrete": [str(n) for n in conc[:4]]})
    rep.analysed["dispatch_fanout_fallbacks"] = len(G.unmatched)
    # positive control: with depth guards ignored, the value walkers must form cycles through concrete nodes
    all_sccs = G.sccs(lambda a, b, g: True)
    ctl = [c for c in all_sccs if any(G.is_concrete(n) and ("deserializer::Deserializer" in n[0] or "value::Value" in n[0] or "convert_value::Convert" in n[0]) for n in c)]
    rep.check(len(ctl) >= 1, "C01-R3", "<callgraph>", "positive-control", "positive control failed: without depth guards the recursive walkers must show up as cycles", detail={"sccs": len(all_sccs)})
    for rx, err in [(r"^aldrin_core::serializer::Serializer::<'a>::increment_depth$", "SerializeError::TooDeeplyNested"), (r"^aldrin_core::deserializer::Deserializer::<'a, 'b>::increment_depth$", "DeserializeError::TooDeeplyNested"),
                    (r"^aldrin_core::convert_value::Convert::<'a, 'b>::increment_depth$", "DeserializeError::TooDeeplyNested")]:
        b = prog.one(rx)
        gs_ok, gs_err = None, None
        for i in sorted(b.live_blocks()):
            for st in b.blocks[i]["s"]:
                r = st["r"]
                if r["k"] == "agg" and r.get("variant") == "Ok" and st["d"] == [0]:
                    gs_ok = b.guard_strings(i)
                if r["k"] == "agg" and r.get("variant") == "TooDeeplyNested":
                    gs_err = b.guard_strings(i)
        inc = any(st["r"]["k"] == "bin" and st["r"]["op"] in ("AddWithOverflow", "Add") and (mir.op_const(st["r"]["o"][1]) or {}).get("int") == "1" for i in b.live_blocks() for st in b.blocks[i]["s"])
        ok = inc and gs_ok is not None and gs_err is not None and any(re.match(r"^True=Le\(self\.depth, const:aldrin_core::MAX_VALUE_DEPTH\)$", g) for g in gs_ok) and any(re.match(r"^False=Le\(self\.depth, const:aldrin_core::MAX_VALUE_DEPTH\)$", g) for g in gs_err)
        rep.check(ok, "C01-R3", b.def_, "limit-check", "increment_depth must add one and succeed exactly while depth <= MAX_VALUE_DEPTH, else report %s" % err, detail={"ok_guards": gs_ok, "err_guards": gs_err})
    mx = prog.body("aldrin_core::MAX_VALUE_DEPTH")
    val = None
    if mx is not None:
        for i in sorted(mx.live_blocks()):
            for st in mx.blocks[i]["s"]:
                if st["d"] == [0] and st["r"]["k"] == "use":
                    val = (mir.op_const(st["r"]["o"][0]) or {}).get("int")
    rep.check(val == "32", "C01-R3", "aldrin_core::MAX_VALUE_DEPTH", "limit-is-32", "the nesting limit must be 32, found %s" % val, detail={"value": val})
    # walkers are created at depth 0 by the public entry points
    for c_def, b in prog.bodies.items():
        if b.crate != "aldrin_core" or "::test" in c_def:
            continue
        for c in b.calls:
            if codec.is_walker_new(c) and not any(c_def.startswith(m) or c_def.startswith("<" + m.rstrip(":")) for m in ("aldrin_core::deserializer::", "aldrin_core::serializer::", "aldrin_core::convert_value::Convert")):
                cls = codec.depth_class(b, c.args[-1])
                rep.check(cls == "0", "C01-R3", c_def, "entry-depth", "a walker is created outside the codec with depth `%s` (entry points must start at 0)" % cls, line=c.line, detail={"depth": cls})

    # ---- R5 exact consumption --------------------------------------------------------------------------------
    da = prog.one(r"^aldrin_core::serialized_value::SerializedValueSlice::deserialize_as$")
    tr = [i for i in sorted(da.live_blocks()) for st in da.blocks[i]["s"] if st["r"]["k"] == "agg" and st["r"].get("variant") == "TrailingData"]
    ok = len(tr) == 1
    if ok:
        g = da.guard_strings(tr[0])
        ok = any(re.match(r"^True=Result::is_ok\(Deserialize::deserialize\(Deserializer::new\(self\.0, const:0_u8\)", x) for x in g) and any(re.match(r"^False=slice::is_empty\(self\.0\)$", x) for x in g)
        # the emptiness test cannot be bypassed: the is_ok test dominates every exit that follows the decode call
        dec = [c for c in da.calls if c.name == "deserialize" and (c.trait or "").endswith("Deserialize")]
        okt = [u for (u, gg, l) in da.dominating_guards(tr[0]) if gg and gg.get("call") is not None and gg["call"].name == "is_ok"]
        ok = ok and len(dec) == 1 and bool(okt) and not (set(da.exits()) & da.reachable(dec[0].bb, without_nodes=(okt[0],)))
    rep.check(ok, "C01-R5", da.def_, "trailing-data", "deserialize_as must report TrailingData whenever decoding succeeded and the buffer is not empty afterwards", detail={"sites": len(tr)})
    for (rx, nm) in [(r"^aldrin_core::convert_value::convert$", "convert")]:
        cv = prog.one(rx)
        okr = [i for i in sorted(cv.live_blocks()) for st in cv.blocks[i]["s"] if st["r"]["k"] == "agg" and st["r"].get("variant") == "Owned"]
        ok = bool(okr) and all(any(re.match(r"^True=slice::is_empty\(", x) for x in cv.guard_strings(i)) for i in okr)
        rep.check(ok, "C01-R5", cv.def_, "trailing-data", "a converted value must be returned only when the whole input was consumed", detail={})

    # ---- R6 varint thresholds -----------------------------------------------------------------------------------
    thr = {}
    for rx in (r"^aldrin_core::buf_ext::ValueBufExt::try_get_varint_le$", r"^aldrin_core::buf_ext::ValueBufExt::try_skip_varint_le$", r"^aldrin_core::buf_ext::MessageBufExt::try_get_varint_le$", r"^aldrin_core::buf_ext::BufMutExt::put_varint_le$"):
        b = prog.one(rx)
        cmps = set()
        cnt = set()
        for i in sorted(b.live_blocks()):
            for st in b.blocks[i]["s"]:
                r = st["r"]
                if r["k"] == "bin" and r["op"] in ("Gt", "Ge", "Lt", "Le"):
                    cmps.add("%s(%s, %s)" % (r["op"], "|".join(sorted(strip_role(b.describe(r["o"][0])))), "|".join(sorted(strip_role(b.describe(r["o"][1]))))))
        thr[b.def_] = cmps
    ref = None
    for d, cm in thr.items():
        esc = sorted(x for x in cm if "255" in x or "u8::MAX" in x)
        rep.check(len(esc) == 1, "C01-R6", d, "threshold-found", "expected exactly one escape-threshold comparison against 255 - N, found %s" % esc, detail={"comparisons": sorted(cm)})
        if esc:
            key = re.sub(r"Buf::try_get_u8\([^)]*\)[\.\w]*|\(\*?\w+\)|bytes\[[^\]]*\]|Index::index\([^)]*\)|_\d+\[[^\]]*\]", "FIRST", esc[0])
            shape = re.match(r"^(\w+)\(", esc[0]).group(1) + ":" + ("255-N" if re.search(r", Sub(WithOverflow)?\(const:(255_u8|u8::MAX), const:N\)\)$", esc[0]) else "?")
            if ref is None:
                ref = shape
            rep.check(shape == ref and shape.endswith("255-N") and shape.startswith("Gt"), "C01-R6", d, "threshold-agrees", "escape threshold must be `first > 255 - N` in all varint primitives; this one is %s" % esc[0], detail={"cmp": esc[0]})

    # ---- R7 `None` is a value, not an absence, outside option writers -------------------------------------------------
    # serialize_if_some / serializes_as_some let a writer omit a struct field whose value "is none"; the reader of a dynamic
    # Value::Struct keeps a field holding Value::None, so the dynamic value types must write every field unconditionally, and
    # only writers of the Option tag may declare themselves "none".
    n7 = 0
    for d, b in sorted(prog.bodies.items()):
        if "::test" in d or b.crate != "aldrin_core":
            continue
        if b.name == "serializes_as_some" and b.kind == "AssocFn" and (b.impl_trait or "").endswith("Serialize"):
            n7 += 1
            targ = (b.raw.get("impl_trait_full") or "")
            ok = re.search(r"Serialize<aldrin_core::tags::Option<", targ) is not None
            rep.check(ok, "C01-R7", d, "as-some-only-for-option-writers", "only a writer of the Option tag may report itself as none; this impl (%s) would make struct writers using serialize_if_some drop a field whose value is a none VALUE, which the reader keeps" % targ, line=b.span, detail={})
        if "aldrin_core::value::" in (b.impl_self or "") and b.name == "serialize" and b.kind == "AssocFn" and (b.impl_trait or "").endswith("Serialize"):
            for bb_ in [b] + prog.closures_of(b.def_):
                cond = [c for c in bb_.calls if c.name == "serialize_if_some"]
                n7 += 1
                rep.check(not cond, "C01-R7", d, "dynamic-values-write-every-field", "the writers of the dynamic value types must write every field unconditionally (serialize, not serialize_if_some): the reader keeps a field holding Value::None", line=b.span, detail={"sites": len(cond)})
    rep.floor("C01-R7", "option-writer declarations and dynamic value writers", n7, 6)


def strip_role(descs):
    return set(re.sub(r"\.0$", "", d) for d in descs)


def make_writer_classify(prog, top_def):
    base = codec.make_dispatch_classify(prog, top_def)

    def classify(c):
        d = c.callee or ""
        if c.body.def_ == top_def and re.search(r"serializer::Serializer(::<[^>]*>)?::serialize$", d) and len(c.gargs) >= 2:
            gargs = [g for g in c.gargs if not g.startswith("'")]
            t, v = gargs[0], gargs[-1]
            for cand in ("<%s as aldrin_core::serialize::Serialize<%s>>::serialize" % (v, t), "<%s as aldrin_core::serialize::Serialize<%s>>::serialize" % (re.sub(r"^&(std::boxed::Box<(.*)>)$", r"&\2", v), t)):
                cand = re.sub(r"&'\w+ ", "&", cand)
                if prog.body(cand) is not None:
                    return ("EXPAND_DEF", cand, [("VIA", v.split("::")[-1])])
        return base(c)
    return classify


def writer_descriptor(prog, S, rest, kconst):
    """(kind written, descriptor) of a serializer arm"""
    tag = None
    for t in rest:
        if t[0] == "TAG":
            tag = t[1]
        if t[0] == "CTOR":
            fam = t[1].replace("Serializer", "")
            tg = t[2] if t[2] not in (None, "K") else tag
            if fam.startswith(("Map", "Set")):
                kind = kconst.get((tg, "VALUE_KIND_%s" % fam.upper()), "?")
            else:
                kind = fam
            return kind, ("ctor", fam, tg)
    kinds = [t for t in rest if t[0] == "KIND" and t[1] == "put"]
    kind = kinds[0][2].replace("ValueKind::", "") if kinds else "?"
    if kind == "Enum":
        return kind, ("ctor", "Enum", None)
    leaf = tuple(t for t in codec.merge_fixed(tuple(x for x in rest if x[0] not in ("TAG", "VIA", "@"))) if t[0] != "K")
    return kind, ("leaf",) + leaf


def mirror_of(wdesc, kind):
    """the reader descriptor (codec.descriptor form) that mirrors a writer descriptor for `kind`"""
    if wdesc[0] == "ctor":
        if wdesc[1] == "Enum":
            return ("ctor", "EnumDeserializer", None)
        fam = re.sub(r"[12]$", kind[-1] if kind[-1] in "12" else "", wdesc[1])
        return ("ctor", fam + "Deserializer", wdesc[2])
    return wdesc


def arm_wrappers(de):
    """kind -> set of Value variants the deserializer arm wraps its result into (`.map(Self::V)`)"""
    sw = [u for u in sorted(de.live_blocks()) if de.blocks[u]["t"]["k"] == "switch" and (de.switch_guard(u) or {}).get("kind") == "variant" and (de.switch_guard(u).get("adt") or "").endswith("ValueKind")]
    if not sw:
        return {}
    u = max(sw, key=lambda x: len(de.blocks[x]["t"]["v"]))
    out = {}
    for c in de.calls:
        if c.name != "map" or len(c.args) < 2:
            continue
        k = mir.op_const(c.args[1])
        variant = None
        if k and "fn" in k:
            m = re.search(r"value::Value::(\w+)$", k["fn"].get("full") or "")
            variant = m.group(1) if m else None
        else:
            # `.map(|()| Self::None)`: a closure returning a unit variant
            for o in de.origins(c.args[1]):
                if o[0] == "agg":
                    r = de.blocks[o[1]]["s"][o[2]]["r"]
                    if r.get("ak") == "closure":
                        cb = de.prog.body(r["def"])
                        if cb is not None:
                            for i in sorted(cb.live_blocks()):
                                for st in cb.blocks[i]["s"]:
                                    if st["d"] == [0] and st["r"]["k"] == "agg" and st["r"].get("adt", "").endswith("value::Value"):
                                        variant = st["r"]["variant"]
        if variant is None:
            continue
        for lab in de.edge_labels_reaching(u, c.bb):
            out.setdefault(lab, set()).add(variant)
    return out
