"""Shared facts about aldrin_broker::broker::Broker for the protocol properties
(C02, C03, C04, C05, C09, C10, C11, C12)."""
import re

import mir
import sig

BROKER = "aldrin_broker::broker::Broker"


def load(fdir=None, config="ws"):
    import engine
    fdir = fdir or engine.ensure_facts(config)
    return mir.Program(fdir, crates=["aldrin_broker"])


def methods(prog):
    """name -> body of every method of `impl Broker`"""
    out = {}
    for d, b in prog.bodies.items():
        if b.impl_self == BROKER and b.kind == "AssocFn" and b.impl_trait is None:
            out[b.name] = b
    return out


def closures(prog, body):
    return prog.closures_of(body.def_)


class Send:
    def __init__(self, body, call):
        self.body = body
        self.call = call
        self.bb = call.bb
        self.line = call.line
        self.target = body.describe(call.args[0])
        self.msg_type = None
        self.msg = set()
        self.version = None     # None = VersionedMessage::new(msg, None)
        self.fields = {}
        # message = first argument of VersionedMessage::{new, with_version}
        for vc in body.origin_calls(call.args[1]):
            if vc is None or not (vc.callee or "").startswith("aldrin_broker::versioned_message::VersionedMessage::"):
                continue
            if vc.name == "with_version":
                self.version = body.describe(vc.args[1])
            elif vc.name == "new":
                self.version = None
            g = [a for a in vc.gargs if a.startswith("aldrin_core::message::")]
            if g:
                self.msg_type = g[0].split("::")[-1]
            self.msg = body.describe(vc.args[0])
            self.fields = aggregate_fields(body, vc.args[0])
            self.vcall = vc

    def __repr__(self):
        return "<send %s -> %s @%s>" % (self.msg_type, "|".join(sorted(self.target)), self.line)


def aggregate_fields(body, operand):
    """if the operand is (a move of) a struct literal: field -> set of descriptions"""
    p = mir.op_place(operand)
    if p is None:
        return {}
    out = {}
    for ent in body.defs().get(p[0], []):
        if ent[0] == "stmt":
            r = ent[3]["r"]
            if r["k"] == "agg" and r.get("ak") == "adt":
                for n, o in zip(r.get("fields", []), r["o"]):
                    out.setdefault(n, set()).update(body.describe(o))
            elif r["k"] == "use":
                sub = aggregate_fields(body, r["o"][0])
                for k, v in sub.items():
                    out.setdefault(k, set()).update(v)
    return out


def sends(body):
    return [Send(body, c) for c in body.calls if c.callee == "aldrin_broker::broker::conn_state::ConnectionState::send"]


def all_sends(prog):
    out = []
    for d, b in prog.bodies.items():
        if not d.startswith("aldrin_broker::") or "::test" in d:
            continue
        out.extend(sends(b))
    return out


def has_guard(body, bb, pattern):
    """some condition matching regex `pattern` holds on entry to bb"""
    rx = re.compile(pattern)
    return [g for g in body.guard_strings(bb) if rx.search(g)]


# ----------------------------------------------------------------------------------------------
# state events for co-mutation rules
# ----------------------------------------------------------------------------------------------

MAP_MUT = {"insert": "insert", "remove": "remove"}


def state_event(c):
    """classify a call inside a Broker method as a mutation of broker state:
       ('MAP', field, 'insert'|'remove', bb) | ('GAUGE', name, '+'|'-', bb) | ('PUSH', name, bb) | ('HELPER', name, bb)"""
    b = c.body
    d = c.callee or ""
    nm = c.name
    if nm in ("insert", "remove") and any(d.startswith(t) for t in mir.MAP_TYPES):
        descs = b.describe(c.args[0])
        for ds in descs:
            m = re.match(r"^self\.(\w+)", ds)
            if m:
                return [("MAP", m.group(1), nm, c.bb)]
        return None
    if nm in ("saturating_add", "saturating_sub") and c.args:
        for ds in b.describe(c.args[0]):
            m = re.match(r"^self\.statistics\.(\w+)$", ds)
            if m:
                return [("GAUGE", m.group(1), "+" if nm == "saturating_add" else "-", c.bb)]
        return None
    if d.startswith("aldrin_broker::broker::state::State::push_"):
        return [("PUSH", nm, c.bb)]
    return None


def event_paths(prog, body, classify, keep_err=True, expand_depth=0):
    S = sig.Sig(prog, classify, expand_depth=expand_depth)
    S.keep_err = keep_err
    S.label_results = True
    return S.paths(body)


def cancel_absent(tokens):
    """drop MAP remove events whose result was then matched as None (nothing was removed) and
    the '@res' labels themselves"""
    none_bbs = set(t[1] for t in tokens if t[0] == "@res" and t[2] == "None")
    out = []
    for t in tokens:
        if t[0] == "@res":
            continue
        if t[0] == "MAP" and t[2] == "remove" and t[3] in none_bbs:
            continue
        out.append(t)
    return out


def failed_send_targets(body, bb):
    """for block bb: the `ConnectionState::send` calls whose failure (`is_err()` true / Err edge)
    controls bb, each with the origin set of the key of its target lookup in self.conns"""
    out = []
    for (u, g, labels) in body.dominating_guards(bb):
        if g is None:
            continue
        src = None
        if g.get("kind") == "bool" and g.get("call") is not None and g["call"].name == "is_err" and labels and labels[0] is True:
            src = g["call"].args[0]
        elif g.get("kind") == "variant" and labels and set(labels) <= {"Err", "Break"}:
            src = ["c", g["place"]]
        if src is None:
            continue
        for sc in body.origin_calls(src):
            if sc is None or sc.callee != "aldrin_broker::broker::conn_state::ConnectionState::send":
                continue
            keys = set()
            direct = body.origins(sc.args[0])
            for lc in body.origin_calls(sc.args[0]):
                if lc is not None and lc.name in ("get", "get_mut") and len(lc.args) > 1:
                    keys |= body.origins(lc.args[1])
            out.append((sc, keys, direct))
    return out


def dispatch_map(body, adt_suffix="message::Message", callee_prefix=None):
    """For a function that matches on a Message: kind -> sorted handler names called in that arm
    (arms reaching no handler map to 'ERR' when they build an Err, 'PANIC' when they diverge)."""
    sw = [u for u in sorted(body.live_blocks()) if body.blocks[u]["t"]["k"] == "switch" and (body.switch_guard(u) or {}).get("kind") == "variant" and (body.switch_guard(u).get("adt") or "").endswith(adt_suffix)]
    if not sw:
        return None, None
    # the dispatching switch is the one with the most targets
    u = max(sw, key=lambda x: len(body.blocks[x]["t"]["v"]))
    g = body.switch_guard(u)
    t = body.blocks[u]["t"]
    out = {}
    for (val, bb) in t["v"]:
        kind = g["labels"].get(val, val)
        reach = body.reachable(bb, without_nodes=(u,))
        hs = sorted(set(c.name for c in body.calls if c.bb in reach and c.callee and (callee_prefix is None or c.callee.startswith(callee_prefix))))
        if hs:
            out[kind] = hs
            continue
        errs = any(st["r"]["k"] == "agg" and st["r"].get("variant") in ("Err", "UnexpectedMessageReceived") for i in reach for st in body.blocks[i]["s"])
        div = any(body.blocks[i]["t"]["k"] == "call" and body.blocks[i]["t"]["t"] is None for i in reach)
        out[kind] = ["ERR"] if errs else (["PANIC"] if div else [])
    other = body.blocks[t["o"]]
    wildcard = other["t"]["k"] != "unreachable"
    return out, {"switch": u, "wildcard": wildcard, "kinds": sorted(g["labels"].values())}


def teardown_must_pass(sd, accessors):
    """shutdown_connection: once the connection's state was taken out of self.conns (Some edge of conns.remove(id)), no path
    reaches the exit without calling each collection accessor of the removed state (i.e. without entering its cleanup loop).
    Returns {accessor: ok}."""
    some = sd.edges_matching([r"^Some=discr\(self\.conns\.remove\(id\)\)$"])
    out = {}
    for a in accessors:
        cs = [c.bb for c in sd.calls if c.name == a and (c.callee or "").endswith("ConnectionState::" + a)]
        ok = len(some) == 1 and bool(cs)
        if ok:
            (_u, v) = list(some)[0]
            ok = not (set(sd.exits()) & sd.reachable(v, without_nodes=set(cs)))
        out[a] = ok
    return out


def subscribed_conn_ids_once(prog):
    """Service::subscribed_conn_ids collects the ids in a set before handing them out (each connection once)"""
    sc = prog.one(r"^aldrin_broker::broker::service::Service::subscribed_conn_ids$")
    SET = r"^(Hash|BTree)Set::new\(\)"
    ret = sc.describe(["c", [0]])
    ext = [c for c in sc.calls if c.name in ("extend", "insert") and any(re.match(SET + "$", x) for x in sc.describe(c.args[0]))]
    ok = all(re.match(SET, x) for x in ret) and len(ext) >= 2 and any(c.name == "into_iter" and c.dest == [0] and any(re.match(SET + "$", x) for x in sc.describe(c.args[0])) for c in sc.calls)
    return sc, ok, sorted(ret)
