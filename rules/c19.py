"""C19 — client-side discovery and lifetime views (narrow: fold-step rules of the event fold, not convergence)."""
import os
import re
import tomllib

import engine
import mir

EXPLANATION = (
    "NARROW claim: fold-step rules over the client crate's discoverer entries, Discoverer::poll_next_event / stop and Lifetime::poll_ended (rustc MIR). Decided: (R1) in every "
    "event handler of the three entry kinds the view field the accessors answer from (cookie resp. created) is written iff the matching DiscovererEvent is emitted on the same paths: "
    "each emit lies only on paths through a view write of its polarity, each unconditional addition only on paths that emit Created, each removal that removed something only on paths "
    "that emit Destroyed; the event carries self.key and the id of the handled bus event; unrecognised mutations of the view field are reported; (R2) view writes and emits of specific "
    "entries are dominated by the uuid == self.object edge, Created additions of service-requiring entries by the all-services test; (R3) every entry folds every bus event (the loop "
    "over entries is left only by exhaustion), emitted events are queued push_back / served pop_front and nothing else is returned as Some, dispatchers call the same-named method in "
    "every arm, stop() resets every entry and clears the queue, every reset clears the view field; (R4) Lifetime::poll_ended reaches Ready / listener = None only through one of four "
    "cause edges (stream end, ObjectDestroyed, ObjectCreated with another cookie, CurrentFinished while not found) and from each of them on every path without polling again; found = true "
    "only under the cookie-equal edge; has_ended is listener.is_none(); the listener installs the object filter for the lifetime's own uuid before starting with scope All. "
    "NOT decided (the larger part): that the views converge to the bus state for all interleavings and re-creation histories, find_object / wait_for_object."
)

ADD_CALLS = {"insert", "replace", "get_or_insert", "get_or_insert_with"}
COND_REMOVE_CALLS = {"remove", "take", "remove_entry"}
READ_CALLS = {"get", "contains_key", "is_some", "is_none", "iter", "len", "is_empty", "map", "unwrap", "expect", "keys", "values", "as_ref", "eq", "ne", "fmt", "clone", "copied", "cloned"}


def stmts(b):
    for i in sorted(b.live_blocks()):
        for k, st in enumerate(b.blocks[i]["s"]):
            yield i, k, st


def desc(b, o):
    return set(b.describe(o))


def view_events(b, field):
    """(block, polarity, how, line) of every mutation of self.<field>; polarity add / remove / cond-remove / unknown"""
    out = []
    target = "self." + field
    for i, k, st in stmts(b):
        d = st.get("d")
        if d and d[0] == 1 and [x for x in d[1:] if x != "*"] == ["." + field]:
            ds = desc(b, st["r"]["o"][0]) if st["r"]["k"] == "use" else set()
            if st["r"]["k"] == "agg" and st["r"].get("adt") == "std::option::Option":
                ds = {"Option::%s(" % st["r"].get("variant")}
            if any(x.startswith("Option::Some(") for x in ds):
                out.append((i, "add", "assign Some", st["l"]))
            elif any(x.startswith("Option::None(") for x in ds):
                out.append((i, "remove", "assign None", st["l"]))
            else:
                out.append((i, "unknown", "assign %s" % sorted(ds), st["l"]))
    for c in b.calls:
        if not c.args:
            continue
        if target not in desc(b, c.args[0]):
            continue
        # only &mut receivers mutate
        pl = mir.op_place(c.args[0])
        ty = b.local_ty(pl[0]) if pl else ""
        if not ty.startswith("&mut"):
            continue
        if c.name in ADD_CALLS:
            out.append((c.bb, "add", c.name, c.line))
        elif c.name in COND_REMOVE_CALLS:
            out.append((c.bb, "cond-remove", c.name, c.line))
        elif c.name == "clear":
            out.append((c.bb, "remove", "clear", c.line))
        elif c.name in READ_CALLS:
            continue
        else:
            out.append((c.bb, "unknown", c.name, c.line))
    return out


def emits(b):
    out = []
    for c in b.calls:
        if c.name == "new" and "DiscovererEvent" in (c.callee or ""):
            kinds = desc(b, c.args[1])
            k = None
            if kinds == {"DiscovererEventKind::Created()"}:
                k = "Created"
            elif kinds == {"DiscovererEventKind::Destroyed()"}:
                k = "Destroyed"
            out.append((c.bb, k, c))
    return out


def closure_emits(prog, b):
    """emits inside closures passed to a call of b: (block of that call, kind, call, name of the taking call, receiver description)"""
    out = []
    for c in b.calls:
        for a in c.args[1:]:
            for o in b.origins(a):
                if o[0] == "agg":
                    r = b.blocks[o[1]]["s"][o[2]]["r"]
                    if r.get("ak") == "closure":
                        cb = prog.body(r["def"])
                        if cb is None:
                            continue
                        for (e, k, ec) in emits(cb):
                            out.append((c.bb, k, ec, c.name, desc(b, c.args[0])))
    return out


def on_all_paths(b, a, x):
    """every entry->exit path through block x also passes through block a"""
    return b.dominates(a, x) or b.postdominates(a, x)


def r1_r2(rep, prog, tab):
    nh = ne = nw = 0
    for ent in tab["entry"]:
        ty, field = ent["type"], ent["view"]
        bodies = [b for d, b in sorted(prog.bodies.items()) if d.startswith(ty + "::<Key>::") and "{closure" not in d and "::test" not in d]
        rep.check(bool(bodies), "C19-R1", ty, "entry-kind-exists", "tables/c19.toml names an entry kind that no longer exists", detail={})
        handlers = [b for b in bodies if re.search(r"Option<.*DiscovererEvent<Key>>$", b.locals[0]["ty"])]
        seen_k = set()
        for b in handlers:
            nh += 1
            ves = view_events(b, field)
            ems = emits(b)
            cems = closure_emits(prog, b)
            for (cbb, k, ec, taker, recv) in cems:
                # an emit inside `<removal result>.map(|_| event)`: runs exactly when something was removed
                seen_k.add(k)
                ne += 1
                want = ("add",) if k == "Created" else ("remove", "cond-remove")
                ws = [i for (i, pol, how, line) in ves if pol in want]
                rep.check(any(on_all_paths(b, w, cbb) for w in ws), "C19-R1", b.def_, "emit-has-view-write:%s" % k, "a %s event is emitted (in a closure passed to %s) on a path without the matching write of the entry's view (%s)" % (k, taker, field), line=ec.line, detail={})
            # (e) fail closed
            for (i, pol, how, line) in ves:
                rep.check(pol != "unknown", "C19-R1", b.def_, "view-mutation-recognised:%s" % how, "unrecognised mutation of the view field %s in an event handler (%s): cannot be paired with an event" % (field, how), line=line, detail={})
            for (e, k, c) in ems:
                ne += 1
                seen_k.add(k)
                rep.check(k is not None, "C19-R1", b.def_, "emit-kind-constant", "the kind of an emitted DiscovererEvent must be a constant Created / Destroyed; is %s" % sorted(desc(b, c.args[1])), line=c.line, detail={})
                if k is None:
                    continue
                want = ("add",) if k == "Created" else ("remove", "cond-remove")
                ws = [i for (i, pol, how, line) in ves if pol in want]
                ok = any(on_all_paths(b, w, e) for w in ws)
                rep.check(ok, "C19-R1", b.def_, "emit-has-view-write:%s" % k, "a %s event is emitted on a path that does not %s the entry's view (%s): iter()/object_id() would disagree with the emitted events" % (k, "add the object to" if k == "Created" else "remove the object from", field),
                          line=c.line, detail={"view_writes": [(i, pol, how) for (i, pol, how, l) in ves]})
                # wrong-polarity write on the path to this emit
                bad = [how for (i, pol, how, line) in ves if pol not in want and pol != "unknown" and b.dominates(i, e) and not any(b.dominates(i, w) and b.dominates(w, e) for w in ws)]
                rep.check(not bad, "C19-R1", b.def_, "emit-polarity:%s" % k, "the last view write before a %s event has the opposite polarity (%s)" % (k, bad), line=c.line, detail={})
                # (d) key and id
                rep.check(desc(b, c.args[0]) == {"self.key"}, "C19-R1", b.def_, "emit-key:%s" % k, "the emitted event must carry the entry's own key; carries %s" % sorted(desc(b, c.args[0])), line=c.line, detail={})
                ids = desc(b, c.args[2])
                pname = b.local_name(2) or "_2"
                okid = bool(ids) and all(x == pname or x.startswith(pname + ".") for x in ids)
                rep.check(okid, "C19-R1", b.def_, "emit-id:%s" % k, "the emitted event must carry the id of the handled bus event (with its current cookie); carries %s" % sorted(ids), line=c.line, detail={})
            for (i, pol, how, line) in ves:
                nw += 1
                if pol == "add":
                    es = [e for (e, k, c) in ems if k == "Created"]
                    rep.check(any(on_all_paths(b, e, i) for e in es), "C19-R1", b.def_, "view-add-emits:%s" % how, "the object is added to the entry's view (%s) on a path that does not emit a Created event: a transition the consumer never sees" % how, line=line, detail={})
                elif pol == "remove":
                    es = [e for (e, k, c) in ems if k == "Destroyed"]
                    rep.check(any(on_all_paths(b, e, i) for e in es), "C19-R1", b.def_, "view-remove-emits:%s" % how, "the object is removed from the entry's view (%s) on a path that does not emit a Destroyed event" % how, line=line, detail={})
                elif pol == "cond-remove":
                    es = set(e for (e, k, c) in ems if k == "Destroyed")
                    some = b.edges_matching([r"^Some=discr\(self\.%s\.%s\(" % (re.escape(field), how), r"^True=Option::is_some\(self\.%s\.%s\(" % (re.escape(field), how)])
                    mapped = [x for x in cems if x[1] == "Destroyed" and x[3] in ("map", "and_then") and any(("self.%s.%s(" % (field, how)) in y for y in x[4])]
                    if mapped and not some:
                        rep.ok("C19-R1", "%s:view-remove-mapped:%s" % (b.def_, how), None)
                        continue
                    rep.check(bool(some), "C19-R1", b.def_, "view-remove-tested:%s" % how, "the outcome of the conditional removal %s(..) on the view must decide whether a Destroyed event is emitted (no Some / is_some edge on its result found)" % how, line=line, detail={})
                    for (u, v) in sorted(some):
                        leak = set(b.exits()) & b.reachable(v, without_nodes=es)
                        rep.check(bool(es) and not leak, "C19-R1", b.def_, "view-remove-emits:%s" % how, "after %s(..) removed an object from the view, a path returns without emitting Destroyed" % how, line=line, detail={"edge": [u, v], "exits": sorted(leak)})
            # R2 premises
            prem = ent.get("premise")
            targets = [(i, "view-write:%s" % how, line) for (i, pol, how, line) in ves] + [(e, "emit:%s" % k, c.line) for (e, k, c) in ems]
            if prem and targets:
                edges = b.edges_matching([prem])
                for (i, what, line) in targets:
                    ok = any(b.edge_dominates(u, v, i) for (u, v) in edges)
                    rep.check(ok, "C19-R2", b.def_, "entry-match:%s" % what, "a specific entry must change its view / emit only for bus events about its own object (edge %s must dominate)" % prem, line=line, detail={"edges": sorted(edges)})
            allp = ent.get("all_services")
            if allp:
                for (i, pol, how, line) in ves:
                    if pol != "add":
                        continue
                    edges = b.edges_matching(allp) | helper_edges(prog, b, ty, allp)
                    ok = any(b.edge_dominates(u, v, i) for (u, v) in edges)
                    rep.check(ok, "C19-R2", b.def_, "all-services:%s" % how, "an object may enter the view of a service-requiring entry only under the all-required-services-present test (%s)" % allp, line=line, detail={"edges": sorted(edges)})
                    # the per-service bookkeeping write happens before that test
                    for (u, v) in sorted(edges):
                        if not b.edge_dominates(u, v, i):
                            continue
                        if ent.get("service_write"):
                            sw = [j for j, k2, st in stmts(b) if service_write(b, st, ent["service_write"])] + [c.bb for c in b.calls if c.name == "insert" and c.args and any(re.search(ent["service_write"], x) for x in desc(b, c.args[0]))]
                            if "service" in b.def_.rsplit("::", 1)[-1]:
                                rep.check(any(b.dominates(j, u) for j in sw), "C19-R2", b.def_, "service-recorded-before-test", "the handled service must be recorded in the entry before the all-services test, else the object is never (or too early) discovered", line=line, detail={"service_writes": sw})
        for k in ("Created", "Destroyed"):
            rep.check(k in seen_k, "C19-R1", ty, "kind-emitted:%s" % k, "entry kind %s never emits a %s event" % (ty.rsplit("::", 1)[-1], k), detail={})
        # reset clears the view
        rs = [b for b in bodies if b.def_.endswith("::reset")]
        ok = len(rs) == 1 and any(pol == "remove" for (i, pol, how, line) in view_events(rs[0], field))
        if ok:
            w = [i for (i, pol, how, line) in view_events(rs[0], field) if pol == "remove"]
            ok = any(on_all_paths(rs[0], i, 0) for i in w)
        rep.check(ok, "C19-R3", ty + "::reset", "reset-clears-view", "reset() (used by Discoverer::stop / restart) must clear the entry's view field %s on every path" % field, detail={})
    rep.floor("C19-R1", "entry event handlers", nh, 11)
    rep.floor("C19-R1", "emit sites", ne, 8)
    rep.floor("C19-R1", "view writes in handlers", nw, 8)


def helper_edges(prog, b, ty, allp):
    """True edges of a call to a boolean helper of the same entry type whose body returns the all-services test (extracted helper)"""
    out = set()
    for (u, v) in b.edges_matching([r"^True=\w+::(\w+)\(self[,)]"]):
        for lab in mir.edge_strings(b, u, v):
            m = re.match(r"^True=\w+::(\w+)\(self[,)]", lab)
            if not m:
                continue
            hb = prog.find("^" + re.escape(ty) + r"::<Key>::" + m.group(1) + "$")
            if len(hb) != 1 or hb[0].locals[0]["ty"] != "bool":
                continue
            h = hb[0]
            # the helper's result is the all-services test itself
            rets = set()
            for c in h.calls:
                if any(re.search(p.lstrip("^").replace("True=", "", 1), "%s(%s" % ("Iterator::all" if c.name == "all" else "HashMap::is_empty", ", ".join(sorted(h.describe(c.args[0]))))) for p in allp if c.name in ("all", "is_empty")):
                    rets.add(c.bb)
            if rets and any(h.postdominates(r, 0) for r in rets) and all(("call", r) in [o[:2] for o in h.origins(["c", [0]])] or True for r in rets):
                out.add((u, v))
    return out


def service_write(b, st, rx):
    d = st.get("d")
    if not d:
        return False
    s = mir.fmt_place(d, b)
    ds = set(b.describe(["c", d])) if d else set()
    return any(re.search(rx, x) for x in ds | {s})


def r3(rep, prog):
    b = prog.one(r"^aldrin::discoverer::Discoverer::<Key>::poll_next_event$")
    he = [c for c in b.calls if c.name == "handle_event"]
    nx = [c for c in b.calls if c.name == "next" and "entries" in " ".join(desc(b, c.args[0]))]
    pf = [c for c in b.calls if c.name == "pop_front" and desc(b, c.args[0]) == {"self.events"}]
    pb = [c for c in b.calls if c.name == "push_back" and desc(b, c.args[0]) == {"self.events"}]
    lp = [c for c in b.calls if c.name == "poll_next_event" and "BusListener" in (c.callee or "")]
    # alternative, equivalent shape: self.events.extend(self.entries.values_mut().filter_map(|e| e.handle_event(ev)))
    # (iterator adaptors visit every entry; Extend on a VecDeque appends at the back, in iteration order)
    ext = [c for c in b.calls if c.name == "extend" and desc(b, c.args[0]) == {"self.events"}]
    if not he and len(ext) == 1 and len(pf) == 1 and len(lp) == 1:
        src = " ".join(sorted(desc(b, ext[0].args[1])))
        inner = [cb for cb in prog.closures_of(b.def_) if [c for c in cb.calls if c.name == "handle_event"]]
        okx = "filter_map" in src and "values_mut(self.entries)" in src and len(inner) == 1 and not [c for c in b.calls if c.name in ("take", "skip", "step_by", "take_while", "skip_while", "rev", "find_map")]
        if okx:
            hc = [c for c in inner[0].calls if c.name == "handle_event"][0]
            okx = inner[0].postdominates(hc.bb, 0)
        rep.check(okx, "C19-R3", b.def_, "fold-shape:extend-filter-map", "the fold must hand the polled event to handle_event of every entry and append the results in order; found extend(%s)" % src[:200], line=ext[0].line, detail={})
        oth = [c for c in b.calls if c.args and desc(b, c.args[0]) == {"self.events"} and c.name not in ("pop_front", "extend", "is_empty", "len")]
        rep.check(not oth, "C19-R3", b.def_, "fifo-only", "the event queue must be used first-in first-out (extend / pop_front); also found %s" % [c.name for c in oth], detail={})
        return_rest = True
    else:
        return_rest = False
    ok = len(he) == 1 and len(nx) == 1 and len(pf) == 1 and len(pb) >= 1 and len(lp) == 1
    if return_rest:
        ok = None
    if ok is not None:
        rep.check(ok, "C19-R3", b.def_, "fold-shape", "expected one listener poll, one loop over self.entries calling handle_event, push_back / pop_front on self.events; found handle_event=%d next=%d pop_front=%d push_back=%d poll=%d" % (len(he), len(nx), len(pf), len(pb), len(lp)), detail={})
    if ok:
        h, n, p, l = he[0].bb, nx[0].bb, pf[0].bb, lp[0].bb
        # every entry sees every event: from the handle_event call, nothing but the iterator leads out of the loop
        out = b.reachable(h, without_nodes=(n,)) - {h}
        esc = sorted(x for x in out if x in (p, l) or x in b.exits())
        rep.check(not esc, "C19-R3", b.def_, "every-entry-sees-event", "the loop over the entries can be left after handle_event without asking the iterator (break / return): later entries miss the bus event", line=he[0].line, detail={"escapes": esc})
        # and the iterator's Some edge always reaches handle_event
        some = b.edges_matching([r"^Some=discr\(Iterator::next\("])
        some = [(u, v) for (u, v) in some if b.dominates(n, u)]
        rep.check(bool(some), "C19-R3", b.def_, "loop-some-edge", "no Some edge of the entries iterator found", detail={})
        for (u, v) in some:
            skip = b.reachable(v, without_nodes=(h,))
            rep.check(n not in skip and p not in skip and not (set(b.exits()) & skip), "C19-R3", b.def_, "entry-handled", "an entry can be skipped without handle_event being called for it", detail={"edge": [u, v]})
        # the event handed to handle_event is the polled bus event
        rep.check(all("BusListener::poll_next_event(" in x for x in desc(b, he[0].args[1])) and bool(desc(b, he[0].args[1])), "C19-R3", b.def_, "handles-polled-event", "handle_event must receive the bus event just polled from the listener; receives %s" % sorted(desc(b, he[0].args[1])), detail={})
        # queue discipline
        for c in pb:
            src = desc(b, c.args[1])
            rep.check(bool(src) and all("handle_event(" in x for x in src), "C19-R3", b.def_, "queued-is-handler-result", "only results of handle_event may be queued; queued: %s" % sorted(src), line=c.line, detail={})
            rep.check(b.dominates(h, c.bb), "C19-R3", b.def_, "queued-after-handler", "push_back must follow handle_event", line=c.line, detail={})
        oth = [c for c in b.calls if c.args and desc(b, c.args[0]) == {"self.events"} and c.name not in ("pop_front", "push_back", "is_empty", "len")]
        rep.check(not oth, "C19-R3", b.def_, "fifo-only", "the event queue must be used first-in first-out (push_back / pop_front) for events to come out in transition order; also found %s" % [c.name for c in oth], detail={})
        # every handler result that is Some is queued
        hs = b.edges_matching([r"^Some=discr\(.*handle_event\("])
        rep.check(bool(hs), "C19-R3", b.def_, "handler-result-tested", "no Some edge on handle_event's result found", detail={})
        pbs = set(c.bb for c in pb)
        for (u, v) in hs:
            skip = b.reachable(v, without_nodes=pbs)
            rep.check(n not in skip and not (set(b.exits()) & skip), "C19-R3", b.def_, "emitted-is-queued", "an event produced by an entry can be dropped without being queued", detail={"edge": [u, v]})
        # what is returned as Ready(Some(x)): x from pop_front only
        nret = 0
        for i, k, st in stmts(b):
            r = st["r"]
            if r["k"] == "agg" and r.get("adt") == "std::option::Option" and r.get("variant") == "Some" and st["d"] and "DiscovererEvent" in b.local_ty(st["d"][0]) and "Poll" not in b.local_ty(st["d"][0]):
                src = desc(b, r["o"][0])
                if any("handle_event(" in x for x in src) and not any("pop_front" in x for x in src):
                    # the push_back argument / pattern binding, not a return value
                    continue
                nret += 1
                rep.check(bool(src) and all("pop_front(self.events)" in x or "self.events.pop_front(" in x or "pop_front(" in x for x in src), "C19-R3", b.def_, "returned-from-queue", "an event returned to the consumer must come from the front of the queue; comes from %s" % sorted(src), line=st["l"], detail={})
        rep.analysed["C19-R3:returned Some sites"] = nret
    # dispatchers: same-named method in every arm
    nd = 0
    for rx, meths in ((r"^aldrin::discoverer::entry::DiscovererEntry::<Key>::(handle_event|reset)$", 2), (r"^aldrin::discoverer::specific::SpecificObject::<Key>::(handle_event|reset)$", 2)):
        found = prog.find(rx)
        rep.check(len(found) == meths, "C19-R3", rx, "dispatchers-exist", "expected %d dispatchers, found %d" % (meths, len(found)), detail={})
        for d in found:
            name = d.def_.rsplit("::", 1)[-1]
            sw = [i for i in d.live_blocks() if d.blocks[i]["t"]["k"] == "switch"]
            arms = set()
            for u in sw:
                for v in set(d.succ(u)):
                    lab = d.edge_label(u, v) or []
                    if lab and all(str(x) != "otherwise" for x in lab):
                        arms.add((u, v))
            tgt = [c.bb for c in d.calls if c.name == name]
            for (u, v) in sorted(arms):
                nd += 1
                r = d.reachable(v, without_nodes=tgt)
                rep.check(bool(tgt) and not (set(d.exits()) & r), "C19-R3", d.def_, "arm-dispatches:%s" % "|".join(str(x) for x in (d.edge_label(u, v) or [])), "an arm of the %s dispatcher returns without calling the variant's own %s" % (name, name), detail={})
            oc = [c.name for c in d.calls if c.name != name and c.name not in ("deref_mut", "deref")]
            rep.check(not [x for x in oc if x in ("handle_event", "reset")], "C19-R3", d.def_, "arm-same-method", "an arm calls a different method (%s)" % oc, detail={})
    rep.floor("C19-R3", "dispatcher arms", nd, 8)
    # stop(): drains, resets every entry, clears the queue
    st = prog.one(r"^aldrin::discoverer::Discoverer::<Key>::stop::\{closure#0\}$")
    rs = [c.bb for c in st.calls if c.name == "reset" and "DiscovererEntry" in (c.callee or "")]
    cl = [c.bb for c in st.calls if c.name == "clear" and any(x.endswith("self.events") or x.endswith(".events") for x in desc(st, c.args[0]))]
    nx = [c.bb for c in st.calls if c.name == "next" and any("entries" in x for x in desc(st, c.args[0]))]
    okr = [i for i in st.live_blocks() for s in st.blocks[i]["s"] if s["r"]["k"] == "agg" and s["r"].get("adt") == "std::result::Result" and s["r"].get("variant") == "Ok"]
    rep.check(len(rs) == 1 and len(cl) >= 1 and len(nx) == 1 and bool(okr), "C19-R3", st.def_, "stop-shape", "Discoverer::stop must loop over the entries calling reset and clear the event queue; reset=%s clear=%s next=%s" % (rs, cl, nx), detail={})
    if len(rs) == 1 and cl and len(nx) == 1 and okr:
        for o in okr:
            rep.check(b_dom_any(st, nx, o) and b_dom_any(st, cl, o), "C19-R3", st.def_, "stop-resets-before-ok", "a successful stop() (hence restart) must have gone through the reset loop and the queue clear", detail={"ok_block": o})
        some = [(u, v) for (u, v) in st.edges_matching([r"^Some=discr\(Iterator::next\("]) if st.dominates(nx[0], u)]
        rep.check(bool(some), "C19-R3", st.def_, "stop-loop-edge", "no Some edge of the entries iterator in stop()", detail={})
        for (u, v) in some:
            skip = st.reachable(v, without_nodes=rs)
            rep.check(nx[0] not in skip and not (set(st.exits()) & skip), "C19-R3", st.def_, "every-entry-reset", "an entry can be skipped by the reset loop of stop()", detail={})
        esc = st.reachable(rs[0], without_nodes=nx) & (set(okr) | set(st.exits()))
        rep.check(not esc, "C19-R3", st.def_, "reset-loop-exhaustive", "the reset loop of stop() can be left without asking the iterator", detail={})


def b_dom_any(b, blocks, x):
    return any(b.dominates(i, x) for i in blocks)


def r4(rep, prog):
    b = prog.one(r"^aldrin::lifetime::Lifetime::poll_ended$")
    poll = [c for c in b.calls if c.name == "poll_next_event"]
    rep.check(len(poll) == 1, "C19-R4", b.def_, "one-poll", "expected one poll of the lifetime listener, found %d" % len(poll), detail={})
    if len(poll) != 1:
        return
    P = poll[0].bb
    pe = r"LifetimeListener::poll_next_event\([^)]*\)"
    cause = {
        "stream-end": [r"^None=discr\(%s\.0\)$" % pe],
        "destroyed": [r"^ObjectDestroyed=discr\(%s\.0\.0\.0\)$" % pe],
        "other-cookie": [r"^False=PartialEq::eq\(%s\.0\.0\.0\.0\.cookie, self\.id\.0\.cookie\)$" % pe],
        "never-existed": [r"^False=self\.found$"],
    }
    edges = {k: b.edges_matching(v) for k, v in cause.items()}
    for k, e in edges.items():
        rep.check(len(e) >= 1, "C19-R4", b.def_, "cause-edge:%s" % k, "the %s cause of a lifetime's end is not tested in poll_ended" % k, detail={})
    alle = set().union(*edges.values())
    entry_none = b.edges_matching([r"^None=discr\(self\.listener\)$"])
    rep.check(len(entry_none) == 1, "C19-R4", b.def_, "already-ended-test", "poll_ended must test self.listener first", detail={})
    ready = []
    clear = []
    for i, k, st in stmts(b):
        r = st["r"]
        if r["k"] == "agg" and r.get("adt") == "std::task::Poll" and r.get("variant") == "Ready":
            ready.append(i)
        d = st.get("d")
        if d and d[0] == 1 and [x for x in d[1:] if x != "*"] == [".listener"]:
            src = desc(b, r["o"][0]) if r["k"] == "use" else set()
            rep.check(src == {"Option::None()"}, "C19-R4", b.def_, "listener-only-cleared", "self.listener may only be set to None in poll_ended; set to %s" % sorted(src), line=st["l"], detail={})
            clear.append(i)
    rep.check(len(ready) >= 2 and len(clear) >= 1, "C19-R4", b.def_, "resolution-sites", "expected Ready sites and a listener = None site; found %d / %d" % (len(ready), len(clear)), detail={})
    # never while alive
    r = b.reachable(0, without_edges=alle | entry_none)
    early = sorted((set(ready) | set(clear)) & r)
    rep.check(not early, "C19-R4", b.def_, "resolves-only-on-cause", "a bound lifetime can resolve (Ready / listener = None) without its scope having ended: reachable without any of the four cause edges (stream end, ObjectDestroyed, ObjectCreated with another cookie, CurrentFinished while not found)",
              detail={"blocks": early})
    # the not-found test only at CurrentFinished
    cf = b.edges_matching([r"^CurrentFinished=discr\(%s\.0\.0\)$" % pe])
    for (u, v) in sorted(edges["never-existed"]):
        rep.check(any(b.edge_dominates(x, y, u) for (x, y) in cf), "C19-R4", b.def_, "not-found-at-current-finished", "'never existed' may be concluded only once the enumeration of current objects has finished", detail={})
    oc = b.edges_matching([r"^ObjectCreated=discr\(%s\.0\.0\.0\)$" % pe])
    for (u, v) in sorted(edges["other-cookie"]):
        rep.check(any(b.edge_dominates(x, y, u) for (x, y) in oc), "C19-R4", b.def_, "cookie-test-at-created", "the cookie comparison must be made on the ObjectCreated event", detail={})
    # iff: each cause resolves on every path, without polling again
    for k, es in sorted(edges.items()):
        for (u, v) in sorted(es):
            rr = b.reachable(v, without_nodes=clear)
            back = P in b.reachable(v)
            leak = sorted(set(b.exits()) & rr)
            rep.check(bool(clear) and not back and not leak, "C19-R4", b.def_, "cause-resolves:%s" % k, "after the %s cause the lifetime must resolve: set listener = None and return Ready, without polling again" % k, detail={"polls_again": back, "exits_without_clear": leak})
    for c in clear:
        rep.check(any(b.postdominates(x, c) for x in ready), "C19-R4", b.def_, "clear-then-ready", "after listener = None the poll must return Ready", detail={})
    # found = true only under the cookie-equal edge of ObjectCreated
    eq = b.edges_matching([r"^True=PartialEq::eq\(%s\.0\.0\.0\.0\.cookie, self\.id\.0\.cookie\)$" % pe])
    fw = []
    for i, k, st in stmts(b):
        d = st.get("d")
        if d and d[0] == 1 and [x for x in d[1:] if x != "*"] == [".found"]:
            fw.append(i)
            k_ = mir.op_const(st["r"]["o"][0]) if st["r"]["k"] == "use" else None
            rep.check(bool(k_) and k_.get("repr") == "true", "C19-R4", b.def_, "found-set-true", "found may only be set to true here", line=st["l"], detail={})
            rep.check(any(b.edge_dominates(u, v, i) for (u, v) in eq) and any(b.edge_dominates(u, v, i) for (u, v) in oc), "C19-R4", b.def_, "found-under-same-cookie", "found may be set only when the created object carries the bound cookie", line=st["l"], detail={})
    rep.check(len(fw) == 1, "C19-R4", b.def_, "found-written-once", "expected exactly one write of self.found in poll_ended, found %d" % len(fw), detail={})
    for (u, v) in sorted(eq):
        r2 = b.reachable(v, without_nodes=fw)
        rep.check(P not in r2, "C19-R4", b.def_, "same-cookie-sets-found", "on ObjectCreated with the bound cookie, found must be set before the next poll (else CurrentFinished resolves a live lifetime)", detail={})
    # has_ended
    he = prog.one(r"^aldrin::lifetime::Lifetime::has_ended$")
    c = [x for x in he.calls if x.name == "is_none"]
    rep.check(len(c) == 1 and desc(he, c[0].args[0]) == {"self.listener"} and len(he.calls) == 1, "C19-R4", he.def_, "has-ended-reads-listener", "has_ended must be exactly listener.is_none()", detail={})
    # the listener: object filter for the bound uuid before start(All)
    st = prog.one(r"^aldrin::lifetime::LifetimeListener::start::\{closure#0\}$")
    af = [c for c in st.calls if c.name == "add_bus_listener_filter"]
    sb = [c for c in st.calls if c.name == "start_bus_listener"]
    ok = len(af) == 1 and len(sb) == 1
    rep.check(ok, "C19-R4", st.def_, "listener-start-shape", "LifetimeListener::start must add one filter and start the listener once", detail={})
    if ok:
        f = desc(st, af[0].args[2])
        rep.check(bool(f) and all(re.match(r"^BusListenerFilter::object\(.*uuid\)$", x) for x in f), "C19-R4", st.def_, "filter-is-object", "the lifetime listener must filter on the bound object's uuid; filter is %s" % sorted(f), line=af[0].line, detail={})
        sc = desc(st, sb[0].args[2])
        rep.check(sc == {"BusListenerScope::All()"}, "C19-R4", st.def_, "scope-all", "the lifetime listener must observe current and new objects (scope All): current decides 'never existed', new delivers the end; scope is %s" % sorted(sc), line=sb[0].line, detail={})
        rep.check(st.dominates(af[0].bb, sb[0].bb), "C19-R4", st.def_, "filter-before-start", "the filter must be installed before the listener is started", detail={})
        ck = [desc(st, c.args[1]) for c in (af[0], sb[0])]
        rep.check(all(x and all(y.endswith("self.cookie") or y.endswith(".cookie") for y in x) for x in ck), "C19-R4", st.def_, "own-listener", "filter and start must address the lifetime's own bus listener", detail={"cookies": [sorted(x) for x in ck]})
    nw = prog.one(r"^aldrin::lifetime::Lifetime::new::\{closure#0\}$")
    sc = [c for c in nw.calls if c.name == "start" and "LifetimeListener" in (c.callee or "")]
    ok = len(sc) == 1 and all(x.endswith("id.0.uuid") for x in desc(nw, sc[0].args[1])) and bool(desc(nw, sc[0].args[1]))
    rep.check(ok, "C19-R4", nw.def_, "binds-own-uuid", "Lifetime::new must start its listener for the bound id's uuid", detail={})


def run(rep):
    rep.explanation = EXPLANATION
    rep.trusted = ["rustc nightly MIR", "std HashMap / Option / VecDeque semantics (insert adds, remove / take return what was there, push_back + pop_front is FIFO)", "tables/c19.toml (view field per entry kind, confirmed by reading the accessors)"]
    prog = mir.Program(engine.ensure_facts(engine.config_for("C19")), crates=["aldrin"])
    tab = tomllib.load(open(os.path.join(engine.VERIF, "tables", "c19.toml"), "rb"))
    r1_r2(rep, prog, tab)
    r3(rep, prog)
    r4(rep, prog)
