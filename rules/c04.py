"""C04 — event delivery matches subscriptions; the owner sees 0<->1 transitions (structural clauses)."""
import re

import broker
import engine
import proxyq
import mir
import sig
from c02 import all_match, any_match

EXPLANATION = (
    "Static guard/origin rules over the broker's subscription and event handlers (rustc MIR). Decided: (R1) in emit_event every EmitEvent send is "
    "dominated by the owner check and by the true edge of is_subscribed_to_event(service, event) evaluated on the very connection it is sent to, the "
    "payload is the request unchanged with the emitter's version, and the predicate reads both the per-event and the all-events set; (R2) each of the "
    "six owner notifications (4 direct, 2 queued) is control-dependent on the true result of the matching Service::{subscribe,unsubscribe}_* call and "
    "targets the connection owning the service's object; the four Service methods return true exactly on the first-subscriber / last-subscriber edge "
    "(decision rows over the entry/is_empty branches); (R3) the per-connection mirror and the per-service set change together on every path; (R4) "
    "remove_service queues ServiceDestroyed for every connection from subscribed_conn_ids and clears its mirror, the queue pop is sent as queued; (R5) no "
    "owner notification can precede the requester's reply. Not decided: exactly-once over interleavings, HashSet semantics."
)

OWNER = r"self\.conns\[Object::conn_id\(self\.objs\[self\.svc_uuids\[req\.service_cookie\]\.0\.0\.uuid\]\)\]"
SVC = r"self\.svcs\[\(self\.svc_uuids\[%s\]\.0\.0\.uuid, self\.svc_uuids\[%s\]\.0\.1\)\]"


def run(rep):
    rep.explanation = EXPLANATION
    rep.trusted = ["rustc nightly MIR", "HashSet/HashMap entry semantics (insert/remove/is_empty)"]
    prog = broker.load(config=engine.config_for("C04"))
    M = broker.methods(prog)

    # ---- R7 the client's proxy multiplexer (one broker subscription for any number of proxies) ----
    if not rep.matrix:
        cprog = mir.Program(engine.ensure_facts(engine.config_for("C04")), crates=["aldrin"])
        proxyq.check(rep, cprog, "C04-R7")

    # ---- R8 the owner-side mirror of what the broker asked it to emit (aldrin/src/client/broker_subscriptions.rs) ----
    if not rep.matrix:
        sadt = cprog.adt("aldrin::client::broker_subscriptions::Service")
        flds = [f["name"] for f in sadt["variants"][0]["fields"]] if sadt else []
        rep.floor("C04-R8", "state fields of the owner-side subscription record", len(flds), 2)
        for fn in ("is_empty", "emit"):
            fb = cprog.one(r"^aldrin::client::broker_subscriptions::Service::%s$" % fn)
            read = set()
            for bb_ in [fb] + cprog.closures_of(fb.def_):
                for blk in bb_.blocks:
                    for st in blk["s"]:
                        for pl in ([st["r"].get("p")] if st["r"].get("p") else []) + [o[1] for o in st["r"].get("o", []) if o[0] in ("c", "m")]:
                            for e in pl[1:]:
                                if isinstance(e, str) and e.startswith(".") and e[1:] in flds:
                                    read.add(e[1:])
            rep.check(read == set(flds), "C04-R8", fb.def_, "reads-every-subscription-field", "%s of the owner-side subscription record must consult every kind of subscription it holds (%s); it reads %s — an entry that still carries the ignored kind is dropped / not served" % (fn, flds, sorted(read)),
                      detail={"fields": flds, "read": sorted(read)})
        for fn in ("unsubscribe", "unsubscribe_all"):
            ub = cprog.one(r"^aldrin::client::broker_subscriptions::BrokerSubscriptions::%s$" % fn)
            rm = [c for c in ub.calls if c.name == "remove" and "OccupiedEntry" in (c.callee or c.full or "")]
            ok = len(rm) == 1 and bool(broker.has_guard(ub, rm[0].bb, r"^True=Service::is_empty\("))
            rep.check(ok, "C04-R8", ub.def_, "entry-removed-only-when-empty", "the record of a service may be dropped only when it holds no subscription of any kind (true edge of Service::is_empty)", detail={"sites": len(rm)})

    # ---- R1 fan-out ----------------------------------------------------------------------------
    ee = M["emit_event"]
    es = [s for s in broker.sends(ee) if s.msg_type == "EmitEvent"]
    rep.check(len(es) == 1, "C04-R1", ee.def_, "one-fanout-send", "emit_event must have exactly one EmitEvent send", detail={"n": len(es)})
    for s in es:
        g = ee.guard_strings(s.bb)
        tgt = sorted(s.target)
        sub = [x for x in g if x.startswith("True=ConnectionState::is_subscribed_to_event(")]
        same_conn = any(x.startswith("True=ConnectionState::is_subscribed_to_event(%s, req.service_cookie, req.event)" % t) for x in sub for t in tgt)
        checks = [
            ("owner-check", any(re.search(r"^False=PartialEq::ne\(Object::conn_id\(self\.objs\[self\.svc_uuids\[req\.service_cookie\]\.map\(closure\)\.0\]\), id\)$", x) for x in g),
             "events from non-owners must be dropped: the send must be on the false edge of `owner != emitter`"),
            ("subscription-predicate", same_conn, "the send must be on the true edge of is_subscribed_to_event(req.service_cookie, req.event) of the connection it targets"),
            ("payload", all_match(s.msg, r"^req$"), "the event must be forwarded unchanged"),
            ("version", s.version is not None and all_match(s.version, r"^ConnectionState::version\(self\.conns\[id\]"), "payload version must be the emitter's"),
            ("iterates-all-conns", all_match(s.target, r"^Iterator::next\(HashMap::iter\(self\.conns\)\)\.0\.1$"), "the fan-out must iterate over all connections"),
        ]
        for inst, ok, msg in checks:
            rep.check(ok, "C04-R1", ee.def_, inst, msg, line=s.line, detail={"guards": g, "target": tgt})
        # every subscribed connection gets it: from the true edge of the predicate the next iteration is unreachable without the send
        te = ee.edges_matching([r"^True=ConnectionState::is_subscribed_to_event\("])
        nx = [c.bb for c in ee.calls if c.name == "next"]
        ok = len(te) == 1 and len(nx) == 1 and not any(({nx[0]} | set(ee.exits())) & ee.reachable(v, without_nodes={s.bb}) for (_u, v) in te)
        rep.check(ok, "C04-R1", ee.def_, "every-subscriber-served", "from the true edge of the subscription predicate the send must be reached before the next connection is visited (delivered to every subscriber)", line=s.line, detail={})
    # the closure extracting the object uuid from svc_uuids returns the object's uuid
    isub = prog.one(r"^aldrin_broker::broker::conn_state::ConnectionState::is_subscribed_to_event$")
    fields = set()
    for b in [isub] + prog.closures_of(isub.def_):
        for blk in b.blocks:
            for st in blk["s"]:
                for p in ([st["r"].get("p")] if st["r"].get("p") else []) + [o[1] for o in st["r"].get("o", []) if o[0] in ("c", "m")]:
                    for e in p[1:]:
                        if e in (".all_events", ".events"):
                            fields.add(e)
    rep.check(fields == {".all_events", ".events"}, "C04-R1", isub.def_, "predicate-reads-both-sets", "is_subscribed_to_event must consult both the all-events set and the per-event set; reads %s" % sorted(fields), detail={"fields": sorted(fields)})
    keys = [c for c in isub.calls if c.name in ("contains", "get")]
    rep.check(len(keys) >= 2 and all(all_match(isub.describe(c.args[1]), r"^svc_cookie$") for c in keys), "C04-R1", isub.def_, "predicate-keyed-by-service", "both lookups must be keyed by the service cookie", detail={})

    # ---- R2 0<->1 notifications -------------------------------------------------------------------
    direct = [
        ("subscribe_event", "SubscribeEvent", "Service::subscribe_event", "req.service_cookie", {"serial": r"^Option::None\(\)$", "service_cookie": r"^req\.service_cookie$", "event": r"^req\.event$"}),
        ("unsubscribe_event", "UnsubscribeEvent", "Service::unsubscribe_event", "req.service_cookie", None),
        ("subscribe_all_events", "SubscribeAllEvents", "Service::subscribe_all_events", "req.service_cookie", {"serial": r"^Option::None\(\)$", "service_cookie": r"^req\.service_cookie$"}),
        ("unsubscribe_all_events", "UnsubscribeAllEvents", "Service::unsubscribe_all_events", "req.service_cookie", {"serial": r"^Option::None\(\)$", "service_cookie": r"^req\.service_cookie$"}),
    ]
    for (h, msg, pred, cookie, flds) in direct:
        b = M[h]
        ss = [s for s in broker.sends(b) if s.msg_type == msg]
        rep.check(len(ss) == 1, "C04-R2", b.def_, "one-notification", "%s must notify the owner at exactly one site" % h, detail={"n": len(ss)})
        for s in ss:
            g = b.guard_strings(s.bb)
            svc = SVC % (re.escape(cookie), re.escape(cookie))
            ok_pred = any(re.search(r"^True=%s\(%s, " % (re.escape(pred), svc), x) for x in g)
            ok_tgt = all_match(s.target, "^" + OWNER)
            ok_f = True
            if flds is None:
                ok_f = all_match(s.msg, r"^req$")
            else:
                for k, rx in flds.items():
                    ok_f = ok_f and all_match(s.fields.get(k, []), rx)
            # ... and it is reached: from the true result no path leaves the handler without the notification,
            # unless the owner's connection is gone
            sw = [u for u in b.live_blocks() if b.blocks[u]["t"]["k"] == "switch" and (b.switch_guard(u) or {}).get("call") is not None and mir.short_fn(b.switch_guard(u)["call"].callee) == pred]
            okr = len(sw) == 1
            if okr:
                tv = [v for v in set(b.succ(sw[0])) if b.edge_label(sw[0], v) == [True]]
                gone = b.edges_matching([r"^None=discr\(%s\)$" % OWNER])
                okr = len(tv) == 1 and not (set(b.exits()) & b.reachable(tv[0], without_nodes={s.bb}, without_edges=gone))
            rep.check(okr, "C04-R2", b.def_, "notify-reached:%s" % msg, "when %s reports a 0<->1 transition every path must reach the owner notification (unless the owner's connection is gone)" % pred, line=s.line, detail={})
            rep.check(ok_pred and ok_tgt and ok_f, "C04-R2", b.def_, "notify:%s" % msg,
                      "the owner notification must be sent to the service owner exactly on the true result of %s for the requested service, with serial None and the request's cookie/event" % pred, line=s.line,
                      detail={"guards": g, "target": sorted(s.target), "fields": {k: sorted(v) for k, v in s.fields.items()}})
    queued = [("remove_event_subscription", "push_unsubscribe_event", "Service::unsubscribe_event", ["svc_cookie", "event"]),
              ("remove_all_events_subscription", "push_unsubscribe_all_events", "Service::unsubscribe_all_events", ["svc_cookie"])]
    for (h, push, pred, rest) in queued:
        b = M[h]
        ps = [c for c in b.calls if c.name == push]
        rep.check(len(ps) == 1, "C04-R2", b.def_, "one-queued-notification", "%s must queue the owner notification at one site" % h, detail={"n": len(ps)})
        for c in ps:
            g = b.guard_strings(c.bb)
            svc = SVC % ("svc_cookie", "svc_cookie")
            ok = (any(re.search(r"^True=%s\(%s, " % (re.escape(pred), svc), x) for x in g)
                  and all_match(b.describe(c.args[1]), r"^Object::conn_id\(self\.objs\[self\.svc_uuids\[svc_cookie\]\.0\.0\.uuid\]\)$")
                  and all(all_match(b.describe(a), "^%s$" % n) for a, n in zip(c.args[2:], rest)))
            sw = [u for u in b.live_blocks() if b.blocks[u]["t"]["k"] == "switch" and (b.switch_guard(u) or {}).get("call") is not None and mir.short_fn(b.switch_guard(u)["call"].callee) == pred]
            okr = len(sw) == 1
            if okr:
                tv = [v for v in set(b.succ(sw[0])) if b.edge_label(sw[0], v) == [True]]
                okr = len(tv) == 1 and not (set(b.exits()) & b.reachable(tv[0], without_nodes={c.bb}))
            rep.check(okr, "C04-R2", b.def_, "queued-reached:%s" % push, "when %s reports the last subscriber gone every path must queue the owner notification" % pred, line=c.line, detail={})
            rep.check(ok, "C04-R2", b.def_, "queued:%s" % push, "the queued owner notification must be control-dependent on the true result of %s and name the owner, the service and the event" % pred, line=c.line, detail={"guards": g})
    pl = M["process_loop_result"]
    for (msg, pop, flds) in [("UnsubscribeEvent", "pop_unsubscribe_event", {"service_cookie": ".0.1", "event": ".0.2"}), ("UnsubscribeAllEvents", "pop_unsubscribe_all_events", {"service_cookie": ".0.1", "serial": None}),
                             ("ServiceDestroyed", "pop_services_destroyed", {"service_cookie": ".0.1"})]:
        ss = [s for s in broker.sends(pl) if s.msg_type == msg]
        ok = len(ss) == 1 and all_match(ss[0].target, r"^self\.conns\[State::%s\(state\)\.0\.0\]" % pop)
        if ok:
            for k, suffix in flds.items():
                if suffix is None:
                    ok = ok and all_match(ss[0].fields.get(k, []), r"^Option::None\(\)$")
                else:
                    ok = ok and all_match(ss[0].fields.get(k, []), r"^State::%s\(state\)%s$" % (pop, re.escape(suffix)))
        rep.check(ok, "C04-R2" if msg != "ServiceDestroyed" else "C04-R4", pl.def_, "queue-pop:%s" % msg, "the popped %s must be sent as queued to the queued connection" % msg, detail={"fields": {k: sorted(v) for k, v in ss[0].fields.items()} if ss else None})

    # first/last-subscriber decision rows of the Service methods
    svc_rows(rep, prog)

    # ---- R3 mirrors ----------------------------------------------------------------------------------
    pairs = [("ConnectionState::subscribe_event", "Service::subscribe_event"), ("ConnectionState::unsubscribe_event", "Service::unsubscribe_event"),
             ("ConnectionState::subscribe_all_events", "Service::subscribe_all_events"), ("ConnectionState::unsubscribe_all_events", "Service::unsubscribe_all_events"),
             ("ConnectionState::subscribe", "Service::subscribe"), ("ConnectionState::unsubscribe", "Service::unsubscribe")]
    names = set(x for p in pairs for x in p)
    soft_fns = {"remove_event_subscription", "remove_all_events_subscription", "remove_subscription"}

    def ev(c):
        sf = mir.short_fn(c.callee)
        if sf in names:
            return [("CALL", sf, c.bb)]
        return None
    n = 0
    for name, b in sorted(M.items()):
        for (toks, shape) in broker.event_paths(prog, b, ev):
            evs = [t[1] for t in toks if t[0] == "CALL"]
            for (cn, sv) in pairs:
                a, s_ = evs.count(cn), evs.count(sv)
                if not a and not s_:
                    continue
                n += 1
                ok = (a == s_) or (name in soft_fns and a <= s_)
                rep.check(ok, "C04-R3", b.def_, "mirror:%s" % sv.split("::")[1], "the connection-side mirror and the service-side set must change together (path has %d %s, %d %s)" % (a, cn, s_, sv), line=b.span, detail={"events": evs})
    rep.floor("C04-R3", "mirror-mutating paths", n, 9)
    # the three disconnect helpers must reach the service-side removal for the given service and connection
    for (h, sfn) in [("remove_event_subscription", "Service::unsubscribe_event"), ("remove_all_events_subscription", "Service::unsubscribe_all_events"), ("remove_subscription", "Service::unsubscribe")]:
        b = M[h]
        cs = [c for c in b.calls if mir.short_fn(c.callee) == sfn]
        ok = len(cs) == 1 and all_match(b.describe(cs[0].args[0]), "^" + (SVC % ("svc_cookie", "svc_cookie"))) and any_match(b.describe(cs[0].args[-1]), r"^conn_id$") \
            and bool(broker.has_guard(b, cs[0].bb, r"^Some=discr\(self\.svc_uuids\[svc_cookie\]\)$")) and len(broker.has_guard(b, cs[0].bb, r".")) == 1
        rep.check(ok, "C04-R3", b.def_, "teardown-reaches:%s" % sfn, "%s must remove the disconnecting connection from the service-side set of every service that still exists" % h, line=b.span, detail={"sites": len(cs)})
    # same service / same event on both sides
    for (h, cookie) in [("subscribe_event", "req.service_cookie"), ("unsubscribe_event", "req.service_cookie"), ("subscribe_all_events", "req.service_cookie"), ("unsubscribe_all_events", "req.service_cookie"),
                        ("subscribe_service", "req.service_cookie"), ("unsubscribe_service", "req.service_cookie")]:
        b = M[h]
        for c in b.calls:
            sf = mir.short_fn(c.callee)
            if sf in names and sf.startswith("ConnectionState::"):
                ok = all_match(b.describe(c.args[0]), r"^self\.conns\[id\]") and all_match(b.describe(c.args[1]), "^%s$" % re.escape(cookie))
                rep.check(ok, "C04-R3", b.def_, "mirror-args:%s" % sf, "the mirror of the requesting connection must be keyed by the requested service", line=c.line, detail={})
            if sf in names and sf.startswith("Service::"):
                ok = all_match(b.describe(c.args[0]), "^" + (SVC % (re.escape(cookie), re.escape(cookie)))) and any_match(b.describe(c.args[-1]), r"^id$")
                rep.check(ok, "C04-R3", b.def_, "set-args:%s" % sf, "the service-side set of the requested service must record the requesting connection", line=c.line, detail={})

    # ---- R4 destroy notification ------------------------------------------------------------------------
    rs = M["remove_service"]
    ps = [c for c in rs.calls if c.name == "push_services_destroyed"]
    ua = [c for c in rs.calls if mir.short_fn(c.callee) == "ConnectionState::unsubscribe_all"]
    ok = (len(ps) == 1 and len(ua) == 1 and any_match(rs.describe(ps[0].args[1]), r"Service::subscribed_conn_ids\(self\.svcs\.remove\(") and all_match(rs.describe(ps[0].args[2]), r"^svc_cookie$")
          and all_match(rs.describe(ua[0].args[1]), r"^svc_cookie$") and (rs.dominates(ua[0].bb, ps[0].bb) or rs.dominates(ps[0].bb, ua[0].bb)))
    rep.check(ok, "C04-R4", rs.def_, "destroyed-fanout", "remove_service must queue ServiceDestroyed for, and clear the mirror of, every connection from subscribed_conn_ids()", detail={"push": len(ps), "unsubscribe_all": len(ua)})
    sc = prog.one(r"^aldrin_broker::broker::service::Service::subscribed_conn_ids$")
    srcs = set()
    for c in sc.calls:
        for a in c.args:
            for ds in sc.describe(a):
                for f in ("self.events", "self.subscriptions", "self.all_events"):
                    if f in ds:
                        srcs.add(f)
    # ... each connection once: the ids are collected in a set before they are handed out
    _sc, ok1, ret = broker.subscribed_conn_ids_once(prog)
    rep.check(ok1, "C04-R4", sc.def_, "each-connection-once", "subscribed_conn_ids must hand out every subscribed connection once (collected in a set): a connection holding several subscriptions of the service would otherwise be told ServiceDestroyed several times",
              detail={"returns": sorted(ret)})
    rep.check({"self.events", "self.subscriptions"} <= srcs, "C04-R4", sc.def_, "covers-event-and-service-subscribers", "subscribed_conn_ids must cover event-id subscribers and service subscribers; covers %s" % sorted(srcs), detail={"covers": sorted(srcs)})
    ub = prog.one(r"^aldrin_broker::broker::conn_state::ConnectionState::unsubscribe_all$")
    cleared = set()
    for c in ub.calls:
        if c.name == "remove":
            for ds in ub.describe(c.args[0]):
                cleared.add(ds)
    rep.check({"self.events", "self.subscriptions"} <= cleared, "C04-R4", ub.def_, "clears-mirror", "unsubscribe_all must clear the per-event and the service subscriptions of the destroyed service; clears %s" % sorted(cleared), detail={"clears": sorted(cleared)})

    # ---- R5 reply before notify ---------------------------------------------------------------------------
    for (h, reply, notif) in [("subscribe_event", "SubscribeEventReply", "SubscribeEvent"), ("subscribe_all_events", "SubscribeAllEventsReply", "SubscribeAllEvents"), ("unsubscribe_all_events", "UnsubscribeAllEventsReply", "UnsubscribeAllEvents")]:
        b = M[h]
        rs_ = [s for s in broker.sends(b) if s.msg_type == reply]
        ns = [s for s in broker.sends(b) if s.msg_type == notif]
        ok = bool(rs_) and bool(ns) and not any(b.reaches(n_.bb, r.bb) and n_.bb != r.bb for n_ in ns for r in rs_)
        rep.check(ok, "C04-R5", b.def_, "reply-before-notify", "the requester's reply must never follow the owner notification", detail={"replies": len(rs_), "notifications": len(ns)})
        # and the state change happens only after a successful reply
        muts = [c for c in b.calls if mir.short_fn(c.callee).startswith("Service::")]
        okr = [s for s in rs_ if any_match(s.fields.get("result", []), r"::Ok\(\)")]
        if h != "unsubscribe_all_events":
            rep.check(bool(okr) and all(any(b.dominates(r.bb, c.bb) for r in okr) for c in muts), "C04-R5", b.def_, "reply-before-effect", "the subscription must be recorded only after the Ok reply was sent", detail={})


def svc_rows(rep, prog):
    """decision rows: which edges return true"""
    def ret_true_blocks(b):
        out = []
        for i in b.live_blocks():
            for st in b.blocks[i]["s"]:
                if st["d"] == [0] and st["r"]["k"] == "use":
                    k = mir.op_const(st["r"]["o"][0])
                    if k is not None and k.get("repr") in ("true", "const true"):
                        out.append(i)
        return out
    se = prog.one(r"^aldrin_broker::broker::service::Service::subscribe_event$")
    tb = ret_true_blocks(se)
    rep.check(len(tb) == 1 and bool(broker.has_guard(se, tb[0], r"^Vacant=discr\(self\.events\.entry\(event\)\)$")), "C04-R2", se.def_, "first-subscriber-row", "subscribe_event must return true exactly on the Vacant edge of events.entry(event)", detail={"true_blocks": tb})
    ins = [c for c in se.calls if c.name == "insert" and any_match(se.describe(c.args[-1]), r"^conn_id$")]
    rep.check(len(ins) == 2, "C04-R2", se.def_, "records-subscriber-on-both-edges", "subscribe_event must record the subscriber on both the Occupied and the Vacant edge", detail={"n": len(ins)})
    ue = prog.one(r"^aldrin_broker::broker::service::Service::unsubscribe_event$")
    tb = ret_true_blocks(ue)
    ok = len(tb) == 1 and bool(broker.has_guard(ue, tb[0], r"^Occupied=discr\(self\.events\.entry\(event\)\)$")) and bool(broker.has_guard(ue, tb[0], r"^True=HashSet::is_empty\("))
    rm = [c for c in ue.calls if c.name == "remove"]
    ok = ok and any(any_match(ue.describe(c.args[-1]), r"^conn_id$") and ue.dominates(c.bb, tb[0]) for c in rm)
    rep.check(ok, "C04-R2", ue.def_, "last-subscriber-row", "unsubscribe_event must return true exactly when the set became empty after removing the subscriber", detail={"true_blocks": tb})
    sa = prog.one(r"^aldrin_broker::broker::service::Service::subscribe_all_events$")
    ie = [c for c in sa.calls if c.name == "is_empty"]
    ins = [c for c in sa.calls if c.name == "insert"]
    ok = len(ie) == 1 and len(ins) == 1 and sa.dominates(ie[0].bb, ins[0].bb) and ie[0].bb != ins[0].bb
    # the returned value is the emptiness observed before the insertion
    ret = set()
    for i in sa.live_blocks():
        for st in sa.blocks[i]["s"]:
            if st["d"] == [0]:
                ret |= sa.describe(st["r"]["o"][0]) if st["r"]["k"] == "use" else {st["r"]["k"]}
    ok = ok and all_match(ret, r"^HashSet::is_empty\(self\.all_events\)$")
    rep.check(ok, "C04-R2", sa.def_, "first-all-subscriber-row", "subscribe_all_events must return the emptiness of the all-events set observed before inserting", detail={"returns": sorted(ret)})
    ua = prog.one(r"^aldrin_broker::broker::service::Service::unsubscribe_all_events$")
    ie = sorted([c for c in ua.calls if c.name == "is_empty"], key=lambda c: c.bb)
    rm = [c for c in ua.calls if c.name == "remove"]
    ok = len(ie) == 2 and len(rm) == 1 and ua.dominates(ie[0].bb, rm[0].bb) and ua.reaches(rm[0].bb, ie[1].bb) and not ua.reaches(ie[1].bb, rm[0].bb)
    # `!was_empty && is_empty()`: the second is_empty is evaluated on the false edge of was_empty
    ok = ok and bool(broker.has_guard(ua, ie[1].bb, r"^(False=HashSet::is_empty\(self\.all_events\)|True=Not\(HashSet::is_empty\(self\.all_events\)\))$"))
    rep.check(ok, "C04-R2", ua.def_, "last-all-subscriber-row", "unsubscribe_all_events must return !was_empty && is_empty-after-removal", detail={"is_empty_sites": len(ie), "remove_sites": len(rm)})
