"""Struct/enum codec pairs: facts of `Serialize<T>` impls (for T, &T, TRef) and the
`Deserialize<T> for T` impl of one ADT, for hand-written records (C20-R4) and macro expansions (C16)."""
import re

import mir


def _short(path):
    return (path or "").split("::")[-1]


def trait_kind(b):
    t = b.impl_trait or ""
    if t.endswith("::Serialize") or t.endswith("serialize::Serialize"):
        return "ser"
    if t.endswith("::Deserialize") or t.endswith("deserialize::Deserialize"):
        return "de"
    if t.endswith("::Introspectable"):
        return "intro"
    return None


def trait_arg(b):
    """T of `Serialize<T>` / `Deserialize<T>`"""
    tf = b.raw.get("impl_trait_full") or ""
    m = re.match(r"^[\w:]+<(.*)>$", tf)
    return m.group(1) if m else None


def norm_tag(t):
    """tags are compared up to the visible path of the aldrin_core crate"""
    t = re.sub(r"\baldrin::aldrin_core::", "aldrin_core::", t or "")
    t = re.sub(r"\baldrin::core::", "aldrin_core::", t)
    t = re.sub(r"'\w+ ?", "", t)
    return t


def id_of(body, operand):
    ds = sorted(body.describe(operand))
    out = []
    for d in ds:
        m = re.match(r"^const:(\d+)_u32$", d)
        if m:
            out.append(m.group(1))
            continue
        m = re.match(r"^(\w+)::(\w+)\(\)$", d)
        out.append(m.group(2) if m else d)
    return "|".join(out)


def field_of(body, operand):
    out = set()
    for d in body.describe(operand):
        m = re.match(r"^self\.(\w+)", d)
        out.add(m.group(1) if m else d)
    return "|".join(sorted(out))


def tag_garg(c):
    g = [x for x in c.gargs if not x.startswith("'")]
    return norm_tag(g[0]) if g else None


class Writer:
    def __init__(self, prog, body):
        self.body = body
        self.kind = None          # struct | enum | newtype | forward | other
        self.fields = {}          # id -> (tag, method, field)
        self.variants = {}        # variant -> (id, tag-or-'unit')
        self.fallback = None
        self.struct_ctor = None
        b = body
        for c in b.calls:
            sf = mir.short_fn(c.callee)
            nm = c.name
            if sf.startswith("Serializer::serialize_struct"):
                self.kind = "struct"
                self.struct_ctor = nm
                if "with_unknown_fields" in nm:
                    self.fallback = field_of(b, c.args[-1])
            elif re.match(r"^Struct[12]Serializer::(serialize|serialize_if_some)$", sf):
                self.kind = self.kind or "struct"
                self.fields.setdefault(id_of(b, c.args[1]), []).append((tag_garg(c), nm, field_of(b, c.args[2])))
            elif sf in ("Struct1Serializer::serialize_unknown_fields", "Struct2Serializer::serialize_unknown_fields"):
                self.fallback = field_of(b, c.args[1])
            elif sf in ("Serializer::serialize_enum", "Serializer::serialize_unit_enum", "Serializer::serialize_unknown_variant"):
                self.kind = "enum"
                labs = [re.match(r"^(\w+)=discr\(self\)$", g) for g in b.guard_strings(c.bb)]
                labs = [m.group(1) for m in labs if m]
                v = labs[0] if len(labs) == 1 else "|".join(labs) or "?"
                if v == "?":
                    # single-variant enum: `match self { V(..) => .. }` needs no switch
                    a = prog.adt(b.self_adt or "") or prog.adt(re.sub(r"Ref$", "", b.self_adt or ""))
                    if a is not None and a["kind"] == "Enum" and len(a["variants"]) == 1:
                        v = a["variants"][0]["name"]
                if nm == "serialize_unknown_variant":
                    self.fallback = v
                else:
                    self.variants.setdefault(v, []).append((id_of(b, c.args[1]), tag_garg(c) if nm == "serialize_enum" else "unit"))
        if self.kind is None:
            fw = [c for c in b.calls if mir.short_fn(c.callee) == "Serializer::serialize"]
            if len(fw) == 1:
                src = field_of(b, fw[0].args[1])
                self.kind = "forward" if src in ("self", "") or src.startswith("self") and "." not in "|".join(b.describe(fw[0].args[1])) else "newtype"
                self.newtype = (tag_garg(fw[0]), src)
            else:
                self.kind = "other"


class Reader:
    def __init__(self, prog, body):
        self.body = body
        self.kind = None
        self.fields = {}      # id -> (tag, var)
        self.var_field = {}   # var -> (field, required)
        self.default = None   # skip | add_to_unknown_fields | err | into_unknown_variant
        self.variants = {}    # id -> (tag-or-'unit', variant)
        b = body
        units = [b] + [x for x in prog.closures_of(b.def_)]
        int_rx = re.compile(r"^(\w+)=int\((FieldDeserializer|EnumDeserializer)::id\(")
        inner_rx = re.compile(r"^(\w+)=discr\((FieldDeserializer|EnumDeserializer)::try_id\(.*\)\.0\)$")
        outer_rx = re.compile(r"^(\w+)=discr\((FieldDeserializer|EnumDeserializer)::try_id\(.*\)\)$")

        def id_label(gs):
            out = [m.group(1) for m in (int_rx.match(g) for g in gs) if m]
            inner = [m.group(1) for m in (inner_rx.match(g) for g in gs) if m]
            outer = [m.group(1) for m in (outer_rx.match(g) for g in gs) if m]
            if inner:
                # `match d.try_id() { Ok(E::V) => .. , Err(_) => .. }`: the id is the inner variant
                out.extend(inner)
            elif "Err" in outer:
                out.append("otherwise")
            else:
                # `match d.try_id()? { E::V => .. }`
                out.extend(x for x in outer if x not in ("Continue", "Break"))
            return out
        for c in b.calls:
            sf = mir.short_fn(c.callee)
            if sf in ("Deserializer::deserialize_struct", "Deserializer::deserialize_struct1", "Deserializer::deserialize_struct2"):
                self.kind = "struct"
            elif sf == "Deserializer::deserialize_enum":
                self.kind = "enum"
            elif sf == "FieldDeserializer::deserialize":
                labs = id_label(b.guard_strings(c.bb))
                var = self._var_of(b, c)
                for l in labs:
                    self.fields.setdefault(l, []).append((tag_garg(c), var))
            elif sf in ("FieldDeserializer::skip", "FieldDeserializer::add_to_unknown_fields"):
                labs = id_label(b.guard_strings(c.bb))
                if "otherwise" in labs or not labs:
                    self.default = c.name
            elif sf in ("EnumDeserializer::deserialize", "EnumDeserializer::deserialize_unit"):
                labs = id_label(b.guard_strings(c.bb))
                v = self._variant_of(prog, b, c)
                for l in labs:
                    self.variants.setdefault(l, []).append((tag_garg(c) if c.name == "deserialize" else "unit", v))
            elif sf == "EnumDeserializer::into_unknown_variant":
                self.default = "into_unknown_variant"
        if self.kind == "enum" and self.default is None:
            self.default = "err"
        # final aggregate: which variable feeds which field, and whether absence is an error
        for u in units:
            for i in sorted(u.live_blocks()):
                for st in u.blocks[i]["s"]:
                    r = st["r"]
                    if r["k"] == "agg" and r.get("ak") == "adt" and r["adt"] == (b.self_adt or b.impl_self):
                        for fname, o in zip(r.get("fields", []), r["o"]):
                            found = False
                            for d in u.describe(o):
                                m = re.match(r"^(upvar:)?((?:r#)?\w+)(\.ok_or\(.*InvalidSerialization.*\))?(\.0)?$", d)
                                if m and (m.group(1) or u is not b or m.group(2) == "_fallback"):
                                    self.var_field[m.group(2).replace("r#", "")] = (fname, bool(m.group(3)))
                                    found = True
                            if not found:
                                vn, req = self._named_source(u, o, 8)
                                if vn:
                                    self.var_field[vn] = (fname, req)
        if self.kind is None:
            fw = [c for c in b.calls if mir.short_fn(c.callee) == "Deserializer::deserialize"]
            if len(fw) == 1:
                self.kind = "newtype"
                self.newtype = tag_garg(fw[0])
            else:
                self.kind = "other"

    def _named_source(self, u, operand, depth):
        """(user variable name, passed through ok_or) for an operand of the final struct literal"""
        p = mir.op_place(operand)
        req = False
        while p is not None and depth > 0:
            depth -= 1
            l = p[0]
            loc = u.locals[l]
            if loc.get("name") and loc.get("user") and loc["name"] not in ("val", "residual"):
                return loc["name"].replace("r#", ""), req
            dl = u.defs().get(l, [])
            if len(dl) != 1:
                return None, req
            ent = dl[0]
            if ent[0] == "stmt" and ent[3]["r"]["k"] in ("use", "cast"):
                p = mir.op_place(ent[3]["r"]["o"][0])
            elif ent[0] == "call":
                c = ent[2]
                if c.name in ("ok_or", "ok_or_else"):
                    req = True
                    p = mir.op_place(c.args[0])
                elif mir.is_transparent(c) and c.args:
                    p = mir.op_place(c.args[0])
                else:
                    return None, req
            else:
                return None, req
        return None, req

    def _var_of(self, b, c):
        """user variable the result of call c is stored into"""
        names = set()
        for l, loc in enumerate(b.locals):
            if loc.get("name") and loc.get("user") and l > b.argc:
                for o in b.origins(["c", [l]], depth=8):
                    if o == ("call", c.bb):
                        names.add(loc["name"])
        return "|".join(sorted(names)) or "?"

    def _variant_of(self, prog, b, c):
        """variant the decoded payload of call c is wrapped into (`.map(Self::V)` / `.map(|v| Self::V(v))`)"""
        out = set()
        for mc in b.calls:
            if mc.name != "map" or len(mc.args) < 2:
                continue
            if ("call", c.bb) not in b.origins(mc.args[0], depth=8):
                continue
            k = mir.op_const(mc.args[1])
            if k and "fn" in k:
                out.add(_short(k["fn"].get("full") or ""))
            else:
                for o in b.origins(mc.args[1]):
                    if o[0] == "agg":
                        r = b.blocks[o[1]]["s"][o[2]]["r"]
                        if r.get("ak") == "closure":
                            cb = prog.body(r["def"])
                            if cb is not None:
                                for i in sorted(cb.live_blocks()):
                                    for st in cb.blocks[i]["s"]:
                                        if st["r"]["k"] == "agg" and st["r"].get("ak") == "adt" and st["r"]["adt"] == (b.self_adt or b.impl_self):
                                            out.add(st["r"]["variant"])
        return "|".join(sorted(x.replace("r#", "") for x in out)) or "?"


def collect(prog, crates=None):
    """ADT def path -> {'ser': [Writer...], 'de': Reader|None, 'exp': macro}"""
    out = {}
    for d, b in prog.bodies.items():
        tk = trait_kind(b)
        if tk not in ("ser", "de") or b.kind != "AssocFn":
            continue
        if b.name not in ("serialize", "deserialize"):
            continue
        t = trait_arg(b)
        if t is None:
            continue
        # the type whose schema this is: the trait argument (T of Serialize<T>)
        key = re.sub(r"'\w+ ?", "", t)
        ent = out.setdefault(key, {"ser": [], "de": None, "exp": None, "crate": b.crate})
        if tk == "ser":
            ent["ser"].append(b)
        else:
            if re.sub(r"'\w+ ?", "", b.impl_self or "") == key:
                ent["de"] = b
        if b.exp:
            ent["exp"] = b.exp
    return out
