"""Quantifier normal form of the client's proxy multiplexer decisions (aldrin::client::proxies::Proxies).

The client keeps one broker-side subscription per (service, event) for any number of proxies. Every decision
that forwards a subscribe / unsubscribe to the broker must be taken exactly when NO (other) proxy is subscribed:
in normal form  ALL p. NOT subscribed(p)   (equivalently NOT ANY p. subscribed(p)).  `NOT ALL p. subscribed(p)`
("some proxy is not subscribed") compiles, passes the one- and two-proxy tests and drops a live subscription."""
import re

import mir

ATOMS = ("is_subscribed_to", "is_subscribed_to_all")
PROXIES = "aldrin::client::proxies::Proxies::"


def norm(f):
    """push negations inwards"""
    if f[0] == "NOT":
        g = norm(f[1])
        if g[0] == "NOT":
            return g[1]
        if g[0] == "ANY":
            return ("ALL", norm(("NOT", g[1])))
        if g[0] == "ALL":
            return ("ANY", norm(("NOT", g[1])))
        return ("NOT", g)
    if f[0] in ("ANY", "ALL"):
        return (f[0], norm(f[1]))
    return f


def show(f):
    if f[0] in ("NOT", "ANY", "ALL"):
        return "%s(%s)" % (f[0], show(f[1]))
    return ":".join(str(x) for x in f)


def closure_of(prog, b, operand):
    for o in b.origins(operand):
        if o[0] == "agg":
            r = b.blocks[o[1]]["s"][o[2]]["r"]
            if r.get("ak") == "closure":
                return prog.body(r["def"])
    return None


def formula_of_return(prog, b, depth=6):
    return formula(prog, b, ["c", [0]], depth)


def formula(prog, b, operand, depth=6):
    """boolean formula of an operand: NOT / ANY / ALL / atom P / ('?', why)"""
    if depth <= 0:
        return ("?", "depth")
    p = mir.op_place(operand)
    if p is None:
        return ("?", "const")
    dl = b.defs().get(p[0], [])
    forms = []
    for ent in dl:
        if ent[0] == "stmt":
            r = ent[3]["r"]
            if r["k"] == "un" and r["op"] == "Not":
                forms.append(("NOT", formula(prog, b, r["o"][0], depth - 1)))
            elif r["k"] in ("use", "cast"):
                forms.append(formula(prog, b, r["o"][0], depth - 1))
            elif r["k"] == "ref":
                forms.append(formula(prog, b, ["c", list(r["p"])], depth - 1))
            else:
                forms.append(("?", r["k"]))
        elif ent[0] == "call":
            c = ent[2]
            if c.name in ("all", "any") and (c.callee or "").endswith("Iterator::" + c.name):
                cb = closure_of(prog, b, c.args[1])
                inner = formula_of_return(prog, cb, depth - 1) if cb is not None else ("?", "closure")
                forms.append(("ALL" if c.name == "all" else "ANY", inner))
            elif c.name in ATOMS:
                forms.append(("P", c.name))
            elif (c.callee or "").startswith(PROXIES) and prog.body(c.resolved or c.callee) is not None:
                forms.append(formula_of_return(prog, prog.body(c.resolved or c.callee), depth - 1))
            else:
                forms.append(("?", mir.short_fn(c.callee)))
    forms = [norm(f) for f in forms]
    uniq = []
    for f in forms:
        if f not in uniq:
            uniq.append(f)
    if len(uniq) == 1:
        return uniq[0]
    return ("?", "multi:" + "|".join(show(f) for f in uniq))


def decisions(prog):
    """[(where_def, instance, formula, atom expected)]"""
    out = []
    for b in prog.find(r"^aldrin::client::proxies::Proxies::\w+$"):
        # (a) retain predicates over the events to unsubscribe
        for c in b.calls:
            if c.name == "retain" and any(".events" in d for d in b.describe(c.args[0])):
                cb = closure_of(prog, b, c.args[1])
                f = formula_of_return(prog, cb) if cb is not None else ("?", "closure")
                out.append((b.def_, "retain-events", norm(f), "is_subscribed_to"))
        # (b) the all_events conjunct
        for i in sorted(b.live_blocks()):
            for st in b.blocks[i]["s"]:
                r = st["r"]
                if r["k"] == "bin" and r["op"] in ("BitAnd",) and len(st["d"]) > 1 and any(str(x).endswith("all_events") for x in st["d"][1:]):
                    f = formula(prog, b, r["o"][1])
                    out.append((b.def_, "all-events-conjunct", norm(f), "is_subscribed_to_all"))
        # (c) guards of SubscribeResult::Forward
        for i in sorted(b.live_blocks()):
            for st in b.blocks[i]["s"]:
                r = st["r"]
                if r["k"] == "agg" and r.get("ak") == "adt" and r["adt"].endswith("::SubscribeResult") and r.get("variant") == "Forward":
                    fs = []
                    for (u, g, labs) in b.dominating_guards(i):
                        if not g or g.get("kind") != "bool" or g.get("call") is None:
                            continue
                        c = g["call"]
                        if not (c.callee or "").startswith(PROXIES):
                            continue
                        cbody = prog.body(c.resolved or c.callee)
                        f = formula_of_return(prog, cbody) if cbody is not None else ("?", "callee")
                        if labs == [False]:
                            f = ("NOT", f)
                        elif labs != [True]:
                            f = ("?", "labels %s" % labs)
                        fs.append(norm(f))
                    atom = "is_subscribed_to_all" if b.name.endswith("_all") else "is_subscribed_to"
                    out.append((b.def_, "forward-guard", fs[0] if len(fs) == 1 else ("?", "guards:%d" % len(fs)), atom))
    return out


def check(rep, prog, rule):
    ds = decisions(prog)
    for (where, inst, f, atom) in ds:
        want = ("ALL", ("NOT", ("P", atom)))
        rep.check(f == want, rule, where, inst, "the decision to forward a subscription change to the broker must be taken exactly when no (other) proxy is subscribed — ALL(NOT(P:%s)) — but this one is %s" % (atom, show(f)),
                  detail={"formula": show(f)})
    rep.floor(rule, "proxy multiplexer decisions", len(ds), 5)
    return len(ds)
