"""P9: instance call graph of aldrin_core's codec with one-level-per-edge generic substitution.

A node is (def path, substitution) where the substitution maps the callee's generic parameter
names to the concrete types the caller passed. Trait-method calls on a substituted type are
resolved to the matching impl (exact self type, else a generic impl whose self-type pattern
matches); on an unsubstituted type parameter they fan out to every impl of the trait (closed
world: the codec traits' impls inside aldrin_core; user impls cannot reset the depth — witness W3).
"""
import re

import codec
import mir

PARAM = re.compile(r"^(impl .*|[A-Z][0-9]{0,2}|Self)$")
ANY_PARAM = re.compile(r"(?<![\w:])[A-Z][0-9]{0,2}(?![\w:])|impl ")


def mentions_param(ty):
    """does the type string still contain a (single-letter[+digits]) type parameter or impl-trait?"""
    return bool(ANY_PARAM.search(ty or ""))


def split_qualified(full):
    """'<SELF as TRAIT>::name::<..>' -> (SELF, TRAIT, name) splitting at the top-level ' as '"""
    if not full.startswith("<"):
        return None
    depth = 0
    i = 0
    as_pos = None
    end = None
    while i < len(full):
        ch = full[i]
        if ch in "<([":
            depth += 1
        elif ch in ">)]":
            depth -= 1
            if depth == 0:
                end = i
                break
        elif depth == 1 and full.startswith(" as ", i):
            as_pos = i
        i += 1
    if as_pos is None or end is None:
        return None
    m = re.match(r"^::(\w+)", full[end + 1:])
    return full[1:as_pos], full[as_pos + 4:end], (m.group(1) if m else None)


def norm_lt(s):
    """drop lifetimes: `&'a Box<U>` and `&Box<U>` are the same type for dispatch"""
    return re.sub(r"'\w+,? ?", "", s or "").replace("<>", "")



def is_param(name):
    return bool(PARAM.match(name)) and not name.startswith("'")


def subst_text(text, subst):
    """textual substitution of type parameter names (word boundaries; longest first)"""
    if not subst:
        return text
    for k in sorted(subst, key=len, reverse=True):
        v = subst[k]
        if k.startswith("impl "):
            text = text.replace(k, v)
        else:
            text = re.sub(r"(?<![\w:])%s(?![\w:])" % re.escape(k), v.replace("\\", "\\\\"), text)
    return text


def has_param(ty, generics):
    for g in generics:
        if g.startswith("'"):
            continue
        if g.startswith("impl "):
            if g in ty:
                return True
        elif re.search(r"(?<![\w:])%s(?![\w:])" % re.escape(g), ty):
            return True
    return False


class Graph:
    def __init__(self, prog, crate="aldrin_core", traits=None):
        self.prog = prog
        self.crate = crate
        self.bodies = {d: b for d, b in prog.bodies.items() if b.crate == crate and "::test" not in d and not d.endswith("::test")}
        # trait def -> list of (impl self type, trait_full, {method name -> body})
        self.impls = {}
        for d, b in self.bodies.items():
            if b.impl_trait and b.kind == "AssocFn" and b.name:
                key = b.impl_trait
                self.impls.setdefault(key, {}).setdefault((b.impl_self, b.raw.get("impl_trait_full"), b.raw.get("impl")), {})[b.name] = b
        self.children = {}
        for d, b in self.bodies.items():
            if b.root != d:
                self.children.setdefault(b.root, []).append(b)
        self.nodes = {}
        self.edges = {}
        self.unmatched = []
        self.traits = set(traits or ["aldrin_core::serialize::Serialize", "aldrin_core::deserialize::Deserialize", "aldrin_core::serialize_key::SerializeKey",
                                     "aldrin_core::deserialize_key::DeserializeKey", "aldrin_core::tags::key_impl::KeyTagImpl"])

    # -- pattern matching of impl self types ----------------------------------------------------
    def _impl_regex(self, self_ty, generics):
        parts = re.split(r"(\W+)", self_ty)
        out = ""
        gs = set(g for g in generics if not g.startswith("'"))
        for p in parts:
            if p in gs:
                out += r"(.+)"
            else:
                out += re.escape(p)
        return re.compile("^" + out + "$")

    def resolve_trait_call(self, trait, name, full):
        """bodies implementing method `name` of `trait` for the (substituted) qualified path
        `full` = '<SELF as TRAIT<ARGS>>::name'"""
        cands = self.impls.get(trait, {})
        if not cands:
            return [], "none"
        q = split_qualified(full)
        if q is None:
            return [m[name] for m in cands.values() if name in m], "all"
        st, tf, _nm = q
        st_n, tf_n = norm_lt(st), norm_lt(tf)
        exact = []
        generic = []
        for (ist, itf, idef), methods in cands.items():
            if name not in methods:
                continue
            b = methods[name]
            gens = [g for g in b.generics if not g.startswith("'")]
            if not gens:
                if norm_lt(ist) == st_n and norm_lt(itf) == tf_n:
                    exact.append(b)
            else:
                generic.append((norm_lt(ist), norm_lt(itf), b))
        if exact:
            return exact, "exact"
        if PARAM.match(st) or (mentions_param(st) and len(st) <= 3) or " as " in st:
            # dispatch on a bare type parameter: any impl
            return [m[name] for m in cands.values() if name in m], "all"
        hits = []
        for ist_n, itf_n, b in generic:
            if self._impl_regex(ist_n, b.generics).match(st_n) and self._impl_regex(itf_n, b.generics).match(tf_n):
                hits.append(b)
        if hits:
            return hits, "pattern"
        if mentions_param(st):
            return [m[name] for m in cands.values() if name in m], "all"
        return [], "unmatched"

    # -- depth guards ----------------------------------------------------------------------------------
    def guard_sites(self, body):
        """blocks of calls that take a successful depth step: increment_depth, or a walker
        constructor called with the walker's own depth"""
        out = []
        for c in body.calls:
            if c.name == "increment_depth" and any((c.callee or "").startswith(m) for m in codec.CODEC_MODULES):
                out.append(c.bb)
            elif codec.is_walker_new(c):
                if codec.depth_class(body, c.args[-1]) in ("depth", "0", "depth+1"):
                    out.append(c.bb)
        return out

    def is_guarded(self, body, c, guards):
        return any(g != c.bb and body.dominates(g, c.bb) for g in guards)

    # -- graph construction ---------------------------------------------------------------------------------
    def build(self, roots=None, max_nodes=60000):
        work = []
        for d, b in self.bodies.items():
            if b.root != d:
                continue
            if roots is not None and not roots(b):
                continue
            n = (d, ())
            self.nodes[n] = b
            work.append(n)
        while work:
            n = work.pop()
            if n in self.edges:
                continue
            self.edges[n] = []
            d, sub = n
            b = self.bodies[d]
            subst = dict(sub)
            units = [b] + self.children.get(d, [])
            for u in units:
                guards = self.guard_sites(u) if u is b else []
                for c in u.calls:
                    if c.callee is None:
                        continue
                    guarded = (u is b) and self.is_guarded(u, c, guards)
                    if c.callee.startswith(("std::", "core::", "alloc::", "bytes::", "uuid::")) and not (c.trait or "") in self.traits:
                        continue
                    if "::introspection" in c.callee or (c.trait or "").endswith("Introspectable"):
                        continue
                    targets = []
                    how = "direct"
                    tgt = self.bodies.get(c.resolved) or self.bodies.get(c.callee)
                    gargs = [subst_text(a, subst) for a in c.gargs]
                    if tgt is not None:
                        targets = [tgt]
                    elif c.trait and c.trait in self.traits:
                        full = subst_text(c.full or "", subst)
                        bs, how = self.resolve_trait_call(c.trait, c.name, full)
                        targets = bs
                        if how == "unmatched":
                            # projections / associated types in the trait arguments: fall back to every impl (conservative)
                            self.unmatched.append((d, full))
                            targets = [m[c.name] for m in self.impls.get(c.trait, {}).values() if c.name in m]
                            how = "all"
                    for t in targets:
                        ts = {}
                        gens = [g for g in t.generics]
                        # map the callee's generics to the (substituted) generic arguments of the call
                        if how == "all":
                            pass  # fan-out over every impl: nothing is known about the instance
                        elif len(gens) == len(gargs) and how in ("direct", "exact"):
                            for gname, ga in zip(gens, gargs):
                                if gname.startswith("'"):
                                    continue
                                if not mentions_param(ga):
                                    ts[gname] = ga
                        elif t.impl_self and c.full:
                            # trait impl reached by pattern: bind impl params by matching self type and trait args
                            q = split_qualified(subst_text(c.full, subst))
                            if q is not None:
                                gset = set(g for g in t.generics if not g.startswith("'"))
                                for (pat, val) in ((t.impl_self, q[0]), (t.raw.get("impl_trait_full") or "", q[1])):
                                    m = self._impl_regex(norm_lt(pat), t.generics).match(norm_lt(val))
                                    if m:
                                        pnames = [p for p in re.split(r"\W+", pat) if p in gset]
                                        for pn, v in zip(pnames, m.groups()):
                                            if not mentions_param(v) and pn not in ts:
                                                ts[pn] = v
                        tn = (t.def_, tuple(sorted(ts.items())))
                        if tn not in self.nodes:
                            if len(self.nodes) > max_nodes:
                                raise RuntimeError("call graph exceeds %d instance nodes" % max_nodes)
                            self.nodes[tn] = t
                            work.append(tn)
                        self.edges[n].append((tn, guarded, c.line, c.name))
        return self

    def sccs(self, keep_edge):
        """Tarjan over edges for which keep_edge(src, dst, guarded) holds; returns SCCs that contain a cycle"""
        index = {}
        low = {}
        onstack = set()
        stack = []
        out = []
        counter = [0]
        adj = {n: [t for (t, g, _l, _nm) in es if keep_edge(n, t, g)] for n, es in self.edges.items()}
        for root in list(adj):
            if root in index:
                continue
            it = [(root, iter(adj.get(root, [])))]
            index[root] = low[root] = counter[0]
            counter[0] += 1
            stack.append(root)
            onstack.add(root)
            while it:
                v, children = it[-1]
                advanced = False
                for w in children:
                    if w not in index:
                        index[w] = low[w] = counter[0]
                        counter[0] += 1
                        stack.append(w)
                        onstack.add(w)
                        it.append((w, iter(adj.get(w, []))))
                        advanced = True
                        break
                    elif w in onstack:
                        low[v] = min(low[v], index[w])
                if advanced:
                    continue
                it.pop()
                if it:
                    u = it[-1][0]
                    low[u] = min(low[u], low[v])
                if low[v] == index[v]:
                    comp = []
                    while True:
                        w = stack.pop()
                        onstack.discard(w)
                        comp.append(w)
                        if w == v:
                            break
                    if len(comp) > 1 or v in adj.get(v, []):
                        out.append(comp)
        return out

    def is_concrete(self, node):
        """the instance's Self type (and, for inherent generic fns, its dispatch parameters) is fully known"""
        d, sub = node
        b = self.bodies[d]
        s = dict(sub)
        gens = [g for g in b.generics if not g.startswith("'")]
        if b.impl_self is not None:
            st = subst_text(b.impl_self, s)
            tf = subst_text(b.raw.get("impl_trait_full") or "", s)
            if has_param(st, gens) or has_param(tf, gens):
                return False
        return all(g in s for g in gens)
