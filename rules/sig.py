"""P3/P7: path enumeration and wire-shape signatures of codec functions.

A signature is the set, over all *success* paths of a function, of the sequence of tokens the path
produces. Tokens come from resolved call sites (buffer primitives with their const-generic
widths, structural calls) and from the variant labels of switches on a just-read enum.
Loops are unrolled "each CFG edge at most once per path" (zero and one iteration are both seen).
"""
import re

import mir

MAX_PATHS = 20000


class PathExplosion(Exception):
    pass


def _int_of_const(k):
    """integer value of a constant operand descriptor"""
    if k is None:
        return None
    if "int" in k:
        return int(k["int"])
    m = re.match(r"^(?:const )?(-?\d+)_?[iu]?(8|16|32|64|128|size)?$", k.get("repr", ""))
    if m:
        return int(m.group(1))
    return None


def const_int(body, operand):
    """integer value of an operand if it is (a copy of) an integer constant"""
    k = mir.op_const(operand)
    if k is not None:
        return _int_of_const(k)
    vals = set()
    for o in body.origins(operand, depth=6):
        if o[0] == "const":
            m = re.match(r"^(?:const )?(-?\d+)_?[iu]?(8|16|32|64|128|size)?$", o[1] or "")
            if not m:
                return None
            vals.add(int(m.group(1)))
        else:
            return None
    if len(vals) == 1:
        return vals.pop()
    return None


def array_len_of_arg(body, operand):
    """if the operand is a (reference/unsizing of a reference) to a fixed-size byte array, its length"""
    seen = set()

    def ty_len(ty):
        m = re.search(r"\[u8; (\d+)\]", ty)
        return int(m.group(1)) if m else None

    def walk(op, d):
        p = mir.op_place(op)
        if p is None or d <= 0:
            return None
        l = p[0]
        if l in seen:
            return None
        seen.add(l)
        n = ty_len(body.local_ty(l))
        if n is not None and len(p) <= 2:
            return n
        for ent in body.defs().get(l, []):
            if ent[0] == "stmt":
                r = ent[3]["r"]
                if r["k"] in ("use", "cast"):
                    v = walk(r["o"][0], d - 1)
                    if v is not None:
                        return v
                elif r["k"] == "ref":
                    pl = r["p"]
                    n = ty_len(body.local_ty(pl[0]))
                    if n is not None and all(e == "*" for e in pl[1:]):
                        return n
                    v = walk(["c", [pl[0]]], d - 1)
                    if v is not None:
                        return v
            elif ent[0] == "call":
                c = ent[2]
                # e.g. Uuid::as_bytes() -> &[u8; 16], Default::default() -> [u8; 16]
                n = ty_len(body.local_ty(l))
                if n is not None:
                    return n
                if c.name in ("as_ref", "as_bytes", "borrow") and "uuid::Uuid" in ((c.self_ty or "") + (c.full or "")):
                    return 16  # a Uuid is 16 bytes (uuid::Bytes = [u8; 16])
                if mir.is_transparent(c) and c.args:
                    v = walk(c.args[0], d - 1)
                    if v is not None:
                        return v
        return None

    return walk(operand, 8)


def buf_role(body, operand):
    """name the buffer a primitive operates on: field name of self (.src/.dst/.buf), a local's
    user name (tmp), or the parameter name"""
    names = set()
    for o in body.origins(operand, depth=8):
        if o[0] == "param":
            proj = [e for e in o[2] if e.startswith(".")]
            if proj:
                names.add(proj[-1][1:])
            else:
                names.add(body.local_name(o[1]) or ("_%d" % o[1]))
        elif o[0] == "upvar":
            names.add("upvar")
    if not names:
        # a user-declared local (e.g. `let mut tmp = BytesMut::new()`)
        p = mir.op_place(operand)
        if p is not None:
            for ent in body.defs().get(p[0], []):
                if ent[0] == "stmt" and ent[3]["r"]["k"] == "ref":
                    n = body.local_name(ent[3]["r"]["p"][0])
                    if n:
                        names.add(n)
    return "|".join(sorted(names)) if names else "?"


def kind_of_operand(body, operand):
    """name of the enum constant passed (e.g. 'ValueKind::Vec1' or 'K::VALUE_KIND_MAP1')"""
    out = set()
    for o in body.origins(operand, depth=8):
        if o[0] == "agg":
            s = body.blocks[o[1]]["s"][o[2]]
            r = s["r"]
            if r.get("ak") == "adt":
                out.add(r["adt"].split("::")[-1] + "::" + r["variant"])
        elif o[0] == "const":
            out.add(o[2] or o[1])
        else:
            out.add("?")
    if len(out) == 1:
        return out.pop()
    return "|".join(sorted(str(x) for x in out)) or "?"


# ----------------------------------------------------------------------------------------------


class Sig:
    def __init__(self, prog, classify, expand_depth=4):
        self.prog = prog
        self.classify = classify
        self.cache = {}
        self.expand_depth = expand_depth
        self.edge_limit = 2  # every CFG edge at most twice per path: loops run 0, 1 or 2 times
        self.keep_err = False  # also report paths that return Err
        self.label_results = False  # emit ('@res', call_bb, variant) when branching on a call result
        self.stop_after = ()  # token heads after which a path is cut and counted as success

    def tokens(self, body):
        """list of distinct token tuples of the success paths"""
        out = []
        for (t, _s) in self.paths(body):
            if t not in out:
                out.append(t)
        return out

    def paths(self, body, depth=0):
        """list of (token tuple, return shape), one per success path (duplicates removed)"""
        key = body.def_
        if key in self.cache:
            return self.cache[key]
        self.cache[key] = [((("RECURSION",),), None)]  # cut cycles
        res = self._enumerate(body, depth)
        self.cache[key] = res
        return res

    def _enumerate(self, body, depth):
        """DFS over the normal CFG. Path state: block, multiset of used edges, tokens so far and
        a small abstract store `shapes` (local -> constructor shape) used to
          * classify the returned value (Ok/Err, Some/None) and drop error paths,
          * prune infeasible branches on a value whose constructor is known on this path
            (the Option/Result returned by an expanded callee)."""
        results = []
        seen_res = set()
        count = 0
        stack = [(0, {}, (), {})]
        while stack:
            bb, used, toks, shapes = stack.pop()
            count += 1
            if count > MAX_PATHS:
                raise PathExplosion(body.def_)
            blk = body.blocks[bb]
            shapes = dict(shapes)
            for s in blk["s"]:
                d = s["d"]
                if len(d) == 1:
                    sh = self._shape_of_rvalue(body, s["r"], shapes)
                    if sh is None:
                        shapes.pop(d[0], None)
                    else:
                        shapes[d[0]] = sh
            t = blk["t"]
            k = t["k"]
            if k == "ret":
                sh = shapes.get(0)
                if self.keep_err or not (sh and sh[0] == "Err"):
                    key = (toks, sh)
                    if key not in seen_res:
                        seen_res.add(key)
                        results.append((toks, sh))
                continue
            if k in ("unreachable", "resume", "terminate", "coroutine_drop"):
                continue
            alts = [((), None)]  # (tokens, shape of call result)
            if k == "call":
                c = mir.Call(body, bb, t)
                dl = t["d"][0] if len(t["d"]) == 1 else None
                if t["t"] is None:
                    continue  # diverging call (panic)
                res_shape = self._shape_of_call(body, c, shapes)
                act = self.classify(c)
                if act is None:
                    alts = [((), res_shape)]
                elif act == "EXPAND" or (isinstance(act, tuple) and act and act[0] in ("EXPAND_WITH", "EXPAND_DEF")):
                    prefix = ()
                    callee = None
                    if isinstance(act, tuple) and act[0] == "EXPAND_WITH":
                        prefix = tuple(act[1])
                    if isinstance(act, tuple) and act[0] == "EXPAND_DEF":
                        callee = self.prog.body(act[1])
                        prefix = tuple(act[2]) if len(act) > 2 else ()
                    if callee is None:
                        callee = self.prog.body(c.resolved) or self.prog.body(c.callee)
                    if callee is not None and depth < self.expand_depth:
                        sub = self.paths(callee, depth + 1)
                        if not sub:
                            continue  # callee has no success path
                        rmap = {}
                        for ai in range(min(callee.argc, len(c.args))):
                            pn = callee.local_name(ai + 1)
                            if pn:
                                rmap[pn] = buf_role(body, c.args[ai])
                        alts = [(prefix + tuple(_rename_roles(x, rmap)), shp) for (x, shp) in sub]
                    else:
                        alts = [(prefix + (("CALL", c.callee, tuple(c.gargs)),), res_shape)]
                else:
                    alts = [(tuple(act), res_shape)]
                if getattr(self, "stop_tokens", None):
                    pass
            else:
                dl = None
            succs = body.succ_labeled(bb)
            guard = body.switch_guard(bb) if k == "switch" else None
            known = None
            if guard is not None and guard["kind"] == "variant":
                psh = self._shape_of_place(guard["place"], shapes)
                if psh is not None and psh[0] in guard["labels"].values():
                    known = psh[0]
            for (v, lab) in succs:
                limit = self.edge_limit
                if used.get((bb, v, lab), 0) >= limit:
                    continue
                extra = ()
                if guard is not None and guard["kind"] == "variant":
                    if known is not None:
                        labs = body.edge_label(bb, v)
                        vname = guard["labels"].get(lab) if lab != "otherwise" else None
                        if lab == "otherwise":
                            named = set(x for (_t, x) in succs if x != "otherwise")
                            rest = [n for val, n in guard["labels"].items() if val not in named]
                            if known not in rest:
                                continue
                        elif vname != known:
                            continue
                    lt = self.classify_switch(body, bb, guard, lab)
                    if lt is not None:
                        extra = (lt,)
                    elif self.label_results:
                        srcs = [o[1] for o in body.origins(["c", guard["place"]], depth=10) if o[0] == "call"]
                        if srcs:
                            if lab == "otherwise":
                                named = set(x for (_t, x) in succs if x != "otherwise")
                                rest = sorted(n for val, n in guard["labels"].items() if val not in named)
                                vn = "|".join(rest)
                            else:
                                vn = guard["labels"].get(lab, lab)
                            extra = tuple(("@res", sb, vn) for sb in sorted(set(srcs)))
                if body.blocks[v]["t"]["k"] == "unreachable" and not body.blocks[v]["s"]:
                    continue
                nu = dict(used)
                nu[(bb, v, lab)] = nu.get((bb, v, lab), 0) + 1
                for (nts, rshape) in alts:
                    ns = shapes
                    if k == "call" and dl is not None:
                        ns = dict(shapes)
                        if rshape is None:
                            ns.pop(dl, None)
                        else:
                            ns[dl] = rshape
                    ntoks = toks + nts + extra
                    if self.stop_after and any(tk[0] in self.stop_after for tk in nts):
                        key = (ntoks, None)
                        if key not in seen_res:
                            seen_res.add(key)
                            results.append((ntoks, None))
                        continue
                    stack.append((v, nu, ntoks, ns))
        return results

    # -- tiny constructor-shape domain -------------------------------------------------------
    # shape = (ctor, inner-shape-or-None); ctor in Ok/Err/Some/None/Continue/Break
    def _shape_of_place(self, p, shapes):
        sh = shapes.get(p[0])
        for e in p[1:]:
            if sh is None:
                return None
            if e == "*":
                continue
            if e.startswith("@"):
                if sh[0] != e[1:]:
                    return None
                continue
            if e == ".0":
                sh = sh[1]
                continue
            return None
        return sh

    def _shape_of_operand(self, o, shapes):
        p = mir.op_place(o)
        if p is None:
            return None
        return self._shape_of_place(p, shapes)

    def _shape_of_rvalue(self, body, r, shapes):
        k = r["k"]
        if k == "agg" and r.get("ak") == "adt":
            a = r["adt"]
            if a in ("std::result::Result", "core::result::Result", "std::option::Option", "core::option::Option", "std::ops::ControlFlow", "core::ops::ControlFlow"):
                inner = self._shape_of_operand(r["o"][0], shapes) if r["o"] else None
                return (r["variant"], inner)
            return None
        if k == "use":
            return self._shape_of_operand(r["o"][0], shapes)
        if k == "ref":
            return self._shape_of_place(r["p"], shapes)
        return None

    def _shape_of_call(self, body, c, shapes):
        d = c.callee or ""
        if c.name == "from_residual":
            return ("Err", None)
        if c.name == "branch" and (c.trait or "").endswith("ops::Try"):
            sh = self._shape_of_operand(c.args[0], shapes)
            if sh is not None:
                if sh[0] in ("Ok", "Some"):
                    return ("Continue", sh[1])
                if sh[0] in ("Err", "None"):
                    return ("Break", None)
            return None
        if d.endswith("result::Result::<T, E>::map") or d.endswith("option::Option::<T>::map") or re.search(r"(Result|Option)(::<[^>]*>)?::map$", d):
            # x.map(Some) / x.map(Self::V1): constructor applied to the success value
            sh = self._shape_of_operand(c.args[0], shapes)
            outer = "Ok" if "Result" in d else "Some"
            if sh is not None and sh[0] not in ("Ok", "Some"):
                return sh  # Err / None pass through unchanged
            f = mir.op_const(c.args[1]) if len(c.args) > 1 else None
            inner = None
            if f and f.get("fn"):
                full = f["fn"].get("full") or ""
                if full.endswith("::Some") and "option::Option" in full:
                    inner = ("Some", sh[1] if sh else None)
            return (outer, inner)
        if re.search(r"(Result|Option)(::<[^>]*>)?::(map_err|ok_or|ok_or_else)$", d):
            sh = self._shape_of_operand(c.args[0], shapes)
            if sh is not None and sh[0] in ("Ok", "Some"):
                return ("Ok", sh[1])
            return None
        return None

    def classify_switch(self, body, bb, guard, lab):
        """token for taking the edge labelled `lab` of a variant switch; None = no token"""
        adt = guard.get("adt") or ""
        all_enums = getattr(self, "all_enums", False)
        if not adt.endswith("ValueKind") and not adt.endswith("::OptionKind") and not all_enums:
            if adt not in getattr(self, "label_adts", ()):
                return None
        if all_enums and adt.split("::")[-1] in ("ControlFlow", "Result", "Poll"):
            return None
        extra = (adt.split("::")[-1],) if all_enums else ()
        if lab == "otherwise":
            named = set(x for (_t, x) in body.succ_labeled(bb) if x != "otherwise")
            rest = sorted(n for val, n in guard["labels"].items() if val not in named)
            return ("@", "|".join(rest) if len(rest) <= 3 else "_") + extra
        return ("@", guard["labels"].get(lab, lab)) + extra


def _rename_roles(tokens, rmap):
    out = []
    for t in tokens:
        if t[0] in ("PUT", "GET", "SKIP", "KIND") and len(t) >= 4 and t[3] in rmap:
            t = t[:3] + (rmap[t[3]],) + t[4:]
        out.append(t)
    return out


# ----------------------------------------------------------------------------------------------
# leaf classification shared by the codec rules
# ----------------------------------------------------------------------------------------------

FIXED_PUT = {"put_u8": 1, "put_i8": 1, "put_u16_le": 2, "put_i16_le": 2, "put_u32_le": 4, "put_i32_le": 4, "put_u64_le": 8, "put_i64_le": 8,
             "put_f32_le": 4, "put_f64_le": 8, "put_u16": 2, "put_u32": 4, "put_u64": 8}
FIXED_GET = {"try_get_u8": 1, "try_get_i8": 1, "try_get_u16_le": 2, "try_get_i16_le": 2, "try_get_u32_le": 4, "try_get_i32_le": 4,
             "try_get_u64_le": 8, "try_get_i64_le": 8, "try_get_f32_le": 4, "try_get_f64_le": 8,
             "get_u8": 1, "get_i8": 1, "get_u16_le": 2, "get_u32_le": 4, "get_u64_le": 8, "get_f32_le": 4, "get_f64_le": 8}


def is_bufmut(c):
    return bool(c.callee) and (c.callee.startswith("bytes::BufMut::") or c.callee.startswith("bytes::buf::buf_mut::BufMut::") or (c.trait or "").endswith("bytes::BufMut") or (c.trait or "").endswith("buf_mut::BufMut"))


def is_buf(c):
    return bool(c.callee) and (c.callee.startswith("bytes::Buf::") or c.callee.startswith("bytes::buf::buf_impl::Buf::") or (c.trait or "").endswith("bytes::Buf") or (c.trait or "").endswith("buf_impl::Buf"))


def width_token(body, operand):
    n = const_int(body, operand)
    return n if n is not None else "var"


def leaf_token(c):
    """token for a buffer primitive, or None if the call is not one"""
    body = c.body
    name = c.name
    if c.callee is None:
        return None
    role = buf_role(body, c.args[0]) if c.args else "?"
    if is_bufmut(c):
        if name in FIXED_PUT:
            return ("PUT", "b", FIXED_PUT[name], role)
        if name == "put_slice" or name == "put":
            n = array_len_of_arg(body, c.args[1])
            return ("PUT", "b", n if n is not None else "var", role)
        if name == "put_bytes":
            return ("PUT", "b", "var", role)
        return None
    if is_buf(c):
        if name in FIXED_GET:
            return ("GET", "b", FIXED_GET[name], role)
        if name in ("try_copy_to_slice", "copy_to_slice"):
            n = array_len_of_arg(body, c.args[1])
            return ("GET", "b", n if n is not None else "var", role)
        if name in ("advance", "copy_to_bytes", "try_copy_to_bytes"):
            return ("GET", "b", width_token(body, c.args[1]), role)
        return None
    d = c.callee
    if "::buf_ext::" in d:
        if name in ("try_get_varint_le", "try_skip_varint_le", "put_varint_le"):
            n = None
            for a in c.gargs[::-1]:
                if re.match(r"^\d+$", a):
                    n = int(a)
                    break
            if n is None:
                n = "N"
            op = {"try_get_varint_le": "GET", "try_skip_varint_le": "SKIP", "put_varint_le": "PUT"}[name]
            return (op, "varint", n, role)
        if name == "try_skip":
            return ("SKIP", "b", width_token(body, c.args[1]), role)
        if name == "try_copy_to_bytes":
            return ("GET", "b", width_token(body, c.args[1]), role)
        if name == "try_get_discriminant_u8":
            return ("KIND", "get", c.gargs[-1].split("::")[-1] if c.gargs else "?", role)
        if name == "try_peek_discriminant_u8":
            return ("KIND", "peek", c.gargs[-1].split("::")[-1] if c.gargs else "?", role)
        if name == "ensure_discriminant_u8":
            return ("KIND", "ensure", kind_of_operand(body, c.args[1]), role)
        if name == "put_discriminant_u8":
            return ("KIND", "put", kind_of_operand(body, c.args[1]), role)
    if d.endswith("BytesMut::extend_from_slice") or (d.endswith("::extend_from_slice") and "BytesMut" in (c.full or "")):
        n = array_len_of_arg(body, c.args[1])
        src = buf_role(body, c.args[1])
        return ("PUT", "b", n if n is not None else "var", role, "from:" + src)
    return None


def normalise(tokens, drop_roles=True, merge_kind=True):
    """canonical form for cross-walker comparison:
       PUT/GET/SKIP collapse to 'X'; KIND get + @V  ==  KIND put V == KIND ensure V  -> ('K', V)"""
    out = []
    i = 0
    toks = list(tokens)
    while i < len(toks):
        t = toks[i]
        if t[0] in ("PUT", "GET", "SKIP"):
            out.append(("X", t[1], t[2]))
        elif t[0] == "KIND":
            if t[1] in ("get", "peek"):
                if i + 1 < len(toks) and toks[i + 1][0] == "@":
                    out.append(("K", toks[i + 1][1]))
                    i += 1
                else:
                    out.append(("K", "?"))
            else:
                out.append(("K", t[2].split("::")[-1] if t[2].startswith("ValueKind::") else t[2]))
        elif t[0] == "@":
            out.append(t)
        else:
            out.append(t)
        i += 1
    return tuple(out)


def fmt(tokens):
    parts = []
    for t in tokens:
        parts.append(t[0] + "(" + ",".join(str(x) for x in t[1:]) + ")")
    return " ".join(parts) if parts else "ε"
