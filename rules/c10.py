"""C10 — bus listeners report exactly the matching current and new events (structural clauses)."""
import re

import broker
import engine
import mir
import sig
from c02 import all_match, any_match
from c05 import rows

EXPLANATION = (
    "Static rules over broker/src/bus_listener.rs, the bus-listener handlers of the broker and core/src/bus_listener.rs (rustc MIR). Decided: (R1) every "
    "BusListener method that mutates the filter set also assigns both cached flags on every path, the incremental and the recomputed flag values test the "
    "same patterns (Object(None); Service{Some,Some}), clearing resets them to the constructor's values; (R2) in start_bus_listener all four enumeration "
    "loops send EmitBusEvent tagged Some(req.cookie) with {Object,Service}Created, the scan loops are guarded by matches_object / matches_service and the "
    "specific loops by the registry lookup, everything is behind the Ok reply, the owner check, start()==true and scope != New, and every successful path "
    "that enumerates ends with BusListenerCurrentFinished{req.cookie}; start()/stop() refuse a second start / report not-started; (R3) new events are sent "
    "untagged, guarded by matches_new_event (which requires a scope including New) and the per-connection de-duplication set, and the four queues are "
    "drained in the order create-object, create-service, destroy-service, destroy-object with the matching BusEvent constructor; (R4) the filter predicates "
    "of core (matches_object / matches_service / matches_event / ServiceFilter::matches) have the specified decision rows. Not decided: exactly-once per "
    "connection over histories, HashSet semantics."
)

BL = "aldrin_broker::bus_listener::BusListener::"
LISTENER = r"self\.bus_listeners\[req\.cookie\]\.0"


def field_assigns(body, field):
    out = []
    for i in sorted(body.live_blocks()):
        for st in body.blocks[i]["s"]:
            if st["d"][0] == 1 and st["d"][-1] == "." + field:
                out.append((i, st))
    return out


def run(rep):
    rep.explanation = EXPLANATION
    rep.trusted = ["rustc nightly MIR", "HashSet / Iterator::any / Iterator::all semantics"]
    cfg = engine.config_for("C10")
    fdir = engine.ensure_facts(cfg)
    prog = mir.Program(fdir, crates=["aldrin_broker", "aldrin_core"])
    M = broker.methods(prog)
    B = lambda n: prog.one("^" + re.escape(BL + n) + "$")

    # ---- R1 flag maintenance ---------------------------------------------------------------------
    muts = []
    for d, b in prog.bodies.items():
        if b.impl_self == "aldrin_broker::bus_listener::BusListener" and b.kind == "AssocFn":
            mc = [c for c in b.calls if c.name in ("insert", "remove", "clear", "retain", "extend", "drain", "take") and any_match(b.describe(c.args[0]), r"^self\.filters$")]
            if mc:
                muts.append((b, mc))
    rep.floor("C10-R1", "filter mutators", len(muts), 3)
    for (b, mc) in muts:
        for f in ("matches_all_objects", "matches_specific_services"):
            asg = field_assigns(b, f)
            ok = bool(asg) and all(any(b.postdominates(i, c.bb) or b.dominates(i, c.bb) for (i, _s) in asg) for c in mc) and any(all(b.dominates(i, e) for e in b.exits()) for (i, _s) in asg)
            rep.check(ok, "C10-R1", b.def_, "flag:%s" % f, "%s mutates the filter set but does not update the cached flag %s on every path" % (b.name, f), line=b.span, detail={"assignments": len(asg)})
    # values: constructor / clear
    new = B("new")
    init = broker.aggregate_fields(new, ["c", [0]]) if False else {}
    for i in sorted(new.live_blocks()):
        for st in new.blocks[i]["s"]:
            if st["d"] == [0] and st["r"]["k"] == "agg":
                for n, o in zip(st["r"].get("fields", []), st["r"]["o"]):
                    init[n] = sorted(new.describe(o))
    clr = B("clear_filters")
    for f in ("matches_all_objects", "matches_specific_services"):
        asg = field_assigns(clr, f)
        vals = sorted(set(x for (_i, s) in asg for x in (clr.describe(s["r"]["o"][0]) if s["r"]["k"] == "use" else {s["r"]["k"]})))
        rep.check(bool(asg) and vals == init.get(f), "C10-R1", clr.def_, "clear-resets:%s" % f, "clear_filters must reset %s to the constructor's value %s (assigns %s)" % (f, init.get(f), vals), detail={"init": init.get(f), "clear": vals})
    # incremental (add) vs recomputed (remove): same patterns
    add = B("add_filter")
    rem = B("remove_filter")
    a_all = field_assigns(add, "matches_all_objects")
    ok = len(a_all) == 1 and a_all[0][1]["r"]["k"] == "bin" and a_all[0][1]["r"]["op"] == "BitOr" and any_match(add.describe(a_all[0][1]["r"]["o"][1]), r"^PartialEq::eq\(filter, BusListenerFilter::Object\(Option::None\(\)\)\)$")
    rep.check(ok, "C10-R1", add.def_, "incremental:all-objects", "add_filter must OR the flag with `filter == Object(None)`", detail={})
    a_sp = field_assigns(add, "matches_specific_services")
    ok = len(a_sp) == 1 and a_sp[0][1]["r"]["k"] == "bin" and a_sp[0][1]["r"]["op"] == "BitAnd"
    rep.check(ok, "C10-R1", add.def_, "incremental:specific-services", "add_filter must AND the flag with the Service{Some,Some} pattern", detail={})
    rep.check(service_some_some_rows(add, "filter"), "C10-R1", add.def_, "pattern:specific-services", "the AND-ed value must be true exactly for Service{object: Some, service: Some}", detail={})
    r_all = field_assigns(rem, "matches_all_objects")
    ok = len(r_all) == 1 and any_match(rem.describe(r_all[0][1]["r"]["o"][0]) if r_all[0][1]["r"]["k"] == "use" else [], r"^Iterator::any\(self\.filters, closure\)$|^Iterator::any\(HashSet::iter\(self\.filters\), closure\)$")
    rep.check(ok, "C10-R1", rem.def_, "recomputed:all-objects", "remove_filter must recompute the flag as any(filter == Object(None)) over the remaining filters", detail={"desc": sorted(rem.describe(r_all[0][1]["r"]["o"][0])) if r_all and r_all[0][1]["r"]["k"] == "use" else None})
    r_sp = field_assigns(rem, "matches_specific_services")
    ok = len(r_sp) == 1 and any_match(rem.describe(r_sp[0][1]["r"]["o"][0]) if r_sp[0][1]["r"]["k"] == "use" else [], r"^Iterator::all\((HashSet::iter\()?self\.filters\)?, closure\)$")
    rep.check(ok, "C10-R1", rem.def_, "recomputed:specific-services", "remove_filter must recompute the flag as all(Service{Some,Some}) over the remaining filters", detail={})
    clos = prog.closures_of(rem.def_)
    eq_none = any(any(c.name == "eq" and any_match(cb.describe(c.args[1]), r"BusListenerFilter::Object\(Option::None\(\)\)") for c in cb.calls) for cb in clos)
    some_some = any(service_some_some_rows(cb, None) for cb in clos)
    rep.check(eq_none and some_some and len(clos) == 2, "C10-R1", rem.def_, "recomputed:patterns", "the recomputation closures must test the same patterns as the incremental update", detail={"closures": len(clos)})
    # the removal happens before recomputation
    rc = [c for c in rem.calls if c.name == "remove"]
    anyc = [c for c in rem.calls if c.name in ("any", "all")]
    rep.check(bool(rc) and len(anyc) == 2 and all(rem.dominates(rc[0].bb, c.bb) for c in anyc), "C10-R1", rem.def_, "recompute-after-removal", "flags must be recomputed after the filter was removed", detail={})

    # ---- R2 current enumeration -----------------------------------------------------------------------
    sb = M["start_bus_listener"]
    ss = broker.sends(sb)
    ebs = [s for s in ss if s.msg_type == "EmitBusEvent"]
    rep.check(len(ebs) == 4, "C10-R2", sb.def_, "four-enumeration-sends", "start_bus_listener must have the four enumeration sends (specific/scan × object/service), found %d" % len(ebs), detail={})
    common = [r"^False=PartialEq::ne\(BusListener::conn_id\(%s\), id\)$" % LISTENER, r"^True=BusListener::start\(%s, req\.scope\)$" % LISTENER,
              r"^Continue=discr\(ConnectionState::send\(self\.conns\[id\]\.0, VersionedMessage::new\(StartBusListenerReply::StartBusListenerReply\(req\.serial, StartBusListenerResult::Ok\(\)\)",
              r"^True=PartialEq::ne\(req\.scope, BusListenerScope::New\(\)\)$"]
    kinds = {}
    for s in ebs:
        g = sb.guard_strings(s.bb)
        ev = sorted(s.fields.get("event", []))
        missing = [rx for rx in common if not any(re.search(rx, x) for x in g)]
        ok = not missing and all_match(s.fields.get("cookie", []), r"^Option::Some\(req\.cookie\)$") and all_match(s.target, r"^self\.conns\[id\]")
        what = None
        if any_match(ev, r"^BusEvent::ObjectCreated\("):
            if any(re.search(r"^Some=discr\(BusListener::specific_objects\(%s\)\)$" % LISTENER, x) for x in g):
                what = "object-specific"
                ok = ok and any(re.search(r"^Some=discr\(self\.objs\[Iterator::next\(BusListener::specific_objects\(", x) for x in g) and any_match(ev, r"Object::cookie\(self\.objs\[")
            elif any(re.search(r"^None=discr\(BusListener::specific_objects\(%s\)\)$" % LISTENER, x) for x in g):
                what = "object-scan"
                ok = ok and any(re.search(r"^True=BusListener::matches_object\(%s, ObjectId::new\(Iterator::next\(self\.obj_uuids\)\.0\.1, Iterator::next\(self\.obj_uuids\)\.0\.0\)\)$" % LISTENER, x) for x in g)
        elif any_match(ev, r"^BusEvent::ServiceCreated\("):
            if any(re.search(r"^Some=discr\(BusListener::specific_services\(%s\)\)$" % LISTENER, x) for x in g):
                what = "service-specific"
                ok = ok and any(re.search(r"^Some=discr\(self\.svcs\[\(Iterator::next\(BusListener::specific_services\(", x) for x in g)
            elif any(re.search(r"^None=discr\(BusListener::specific_services\(%s\)\)$" % LISTENER, x) for x in g):
                what = "service-scan"
                ok = ok and any(re.search(r"^True=BusListener::matches_service\(%s, ServiceId::new\(Iterator::next\(self\.svc_uuids\)\.0\.1\.0, Iterator::next\(self\.svc_uuids\)\.0\.1\.1, Iterator::next\(self\.svc_uuids\)\.0\.0\)\)$" % LISTENER, x) for x in g)
        kinds[what] = kinds.get(what, 0) + 1
        rep.check(ok and what is not None, "C10-R2", sb.def_, "enumeration:%s" % what, "enumeration send (%s) must be tagged with the listener, carry a created-event and be guarded by owner check, start(), Ok reply, scope != New and its filter/lookup guard; unmet common guards: %s" % (what, missing), line=s.line,
                  detail={"guards": g, "event": ev})
    rep.check(kinds == {"object-specific": 1, "object-scan": 1, "service-specific": 1, "service-scan": 1}, "C10-R2", sb.def_, "enumeration-strategies", "both strategies for objects and services must be present exactly once: %s" % kinds, detail=kinds)
    fin = [s for s in ss if s.msg_type == "BusListenerCurrentFinished"]
    ok = len(fin) == 1 and all_match(fin[0].fields.get("cookie", []), r"^req\.cookie$") and all(any(re.search(rx, x) for x in sb.guard_strings(fin[0].bb)) for rx in common)
    rep.check(ok, "C10-R2", sb.def_, "finished-marker", "BusListenerCurrentFinished{req.cookie} must be sent under the same guards as the enumeration", detail={"sites": len(fin)})

    # every successful path that sent the Ok reply with scope != New ends with the marker; nothing tagged follows it
    def ev(c):
        if c.callee == "aldrin_broker::broker::conn_state::ConnectionState::send":
            s = broker.Send(c.body, c)
            res = "|".join(sorted(s.fields.get("result", [])))
            return [("SEND", s.msg_type, res, c.bb)]
        return None
    S = sig.Sig(prog, ev, expand_depth=0)
    S.keep_err = False
    S.edge_limit = 2
    n = 0
    fin_bb = fin[0].bb if fin else None
    scope_true = None
    for (u, g, labels) in sb.dominating_guards(fin_bb) if fin_bb is not None else []:
        pass
    for (toks, shape) in S.paths(sb):
        sends_ = [t for t in toks if t[0] == "SEND"]
        if not any(t[1] == "StartBusListenerReply" and "Ok" in t[2] for t in sends_):
            continue
        n += 1
        emits = [t for t in sends_ if t[1] == "EmitBusEvent"]
        has_fin = [i for i, t in enumerate(sends_) if t[1] == "BusListenerCurrentFinished"]
        if emits:
            ok = len(has_fin) == 1 and has_fin[0] == len(sends_) - 1
            rep.check(ok, "C10-R2", sb.def_, "marker-ends-enumeration", "a successful path that enumerated current entities must end with exactly one BusListenerCurrentFinished", detail={"sends": [t[1] for t in sends_]})
        else:
            rep.check(len(has_fin) <= 1 and (not has_fin or has_fin[0] == len(sends_) - 1), "C10-R2", sb.def_, "marker-last", "nothing may follow the end-of-current marker", detail={"sends": [t[1] for t in sends_]})
    rep.floor("C10-R2", "successful start paths", n, 3)
    # the marker is unavoidable once scope != New: it post-dominates (ignoring error exits) the scope test
    if fin:
        scope_sw = [u for (u, g, labels) in sb.dominating_guards(fin[0].bb) if g and g.get("kind") == "bool" and g.get("call") is not None and g["call"].name == "ne" and any_match(sb.describe(g["call"].args[0]), r"^req\.scope$")]
        ok = bool(scope_sw)
        if ok:
            # from the true edge of the scope test every Ok-return passes through the marker block
            u = scope_sw[0]
            seen = sb.reachable(u, without_nodes=(fin[0].bb,))
            bad = []
            for e in sb.exits():
                if e in seen:
                    bad.append(e)
            # exits reachable without the marker must be the scope == New return or error returns
            okexits = True
            for (toks, shape) in S.paths(sb):
                pass
        rep.check(ok, "C10-R2", sb.def_, "marker-under-scope-test", "the marker must be controlled by the scope != New test", detail={})
    st = B("start")
    asg = field_assigns(st, "scope")
    ok = len(asg) == 1 and bool(broker.has_guard(st, asg[0][0], r"^True=Option::is_none\(self\.scope\)$|^True=.*is_none\(self\.scope\)")) and any_match(st.describe(asg[0][1]["r"]["o"][0]) if asg[0][1]["r"]["k"] == "use" else [], r"^Option::Some\(scope\)$")
    rep.check(ok, "C10-R2", st.def_, "start-once", "start() must record the scope only when not started and refuse a second start", detail={"guards": st.guard_strings(asg[0][0]) if asg else None})
    sp = B("stop")
    ok = any(c.name == "take" and any_match(sp.describe(c.args[0]), r"^self\.scope$") for c in sp.calls) and any(c.name == "is_some" for c in sp.calls)
    rep.check(ok, "C10-R2", sp.def_, "stop-reports-started", "stop() must clear the scope and report whether the listener was started", detail={})

    # ---- R3 new events ------------------------------------------------------------------------------------
    eb = M["emit_bus_event"]
    es = [s for s in broker.sends(eb) if s.msg_type == "EmitBusEvent"]
    rep.check(len(es) == 1, "C10-R3", eb.def_, "one-send", "emit_bus_event must have exactly one send", detail={})
    for s in es:
        g = eb.guard_strings(s.bb)
        lst = r"Iterator::next\(HashMap::values\(self\.bus_listeners\)\)\.0"
        cont = [c for c in eb.calls if c.name == "contains"]
        dedup_set = eb.base_local(cont[0].args[0]) if cont else None
        ins = [c for c in eb.calls if c.name == "insert" and any_match(eb.describe(c.args[1]), r"^BusListener::conn_id\(%s\)$" % lst) and eb.base_local(c.args[0]) == dedup_set]
        checks = [
            ("untagged", all_match(s.fields.get("cookie", []), r"^Option::None\(\)$"), "new events must not carry a listener tag"),
            ("event", all_match(s.fields.get("event", []), r"^event$"), "the event must be forwarded as given"),
            ("matches-new-event", any(re.search(r"^True=BusListener::matches_new_event\(%s, event\)$" % lst, x) for x in g), "the send must be on the true edge of matches_new_event of the listener"),
            ("dedup-test", any(re.search(r"^False=HashSet::contains\(HashSet::new\(\), BusListener::conn_id\(%s\)\)$" % lst, x) for x in g), "the send must be on the false edge of the per-connection de-duplication test"),
            ("dedup-insert", bool(ins) and all(eb.dominates(c.bb, s.bb) for c in ins), "the connection must be recorded as served before sending"),
            ("target", all_match(s.target, r"^self\.conns\[BusListener::conn_id\(%s\)\]" % lst), "the event goes to the listener's connection"),
            ("dedup-monotone", dedup_set is not None and not [c for c in eb.calls if c.args and eb.base_local(c.args[0]) == dedup_set and c.name not in ("contains", "insert", "deref", "deref_mut", "borrow", "borrow_mut")],
             "the de-duplication set may only grow while the listeners are visited (no clear/remove/drain)"),
        ]
        for inst, ok, msg in checks:
            rep.check(ok, "C10-R3", eb.def_, inst, msg, line=s.line, detail={"guards": g})
        # every matching listener's connection is served once: from the edge "matches and not yet served" the next
        # listener is unreachable without the send, except when that connection is gone
        te = eb.edges_matching([r"^False=HashSet::contains\(HashSet::new\(\), BusListener::conn_id\("])
        gone = eb.edges_matching([r"^None=discr\(self\.conns\[BusListener::conn_id\("])
        nx = [c.bb for c in eb.calls if c.name == "next" and any("self.bus_listeners" in x for x in eb.describe(c.args[0]))]
        ok = len(te) >= 1 and len(nx) == 1 and not any(({nx[0]} | set(eb.exits())) & eb.reachable(v, without_nodes={s.bb}, without_edges=gone) for (_u, v) in te)
        rep.check(ok, "C10-R3", eb.def_, "every-matching-listener-served", "a listener that matches a new event and whose connection was not served yet must get the event before the next listener is visited", line=s.line, detail={"edges": len(te)})
    mn = B("matches_new_event")
    ok = any(c.name == "map" and any_match(mn.describe(c.args[0]), r"^self\.scope$") and any_match(mn.describe(c.args[1]), r"BusListenerScope::includes_new$") for c in mn.calls)
    anyc = [c for c in mn.calls if c.name == "any"]
    ok = ok and len(anyc) == 1 and bool(broker.has_guard(mn, anyc[0].bb, r"^True=Option::unwrap_or\(|^True=.*includes_new"))
    rep.check(ok, "C10-R3", mn.def_, "requires-scope-new", "matches_new_event must require a started scope that includes New before consulting the filters", detail={"guards": mn.guard_strings(anyc[0].bb) if anyc else None})
    inc = prog.one(r"^aldrin_core::bus_listener::BusListenerScope::includes_new$")
    consts = set()
    for c in inc.calls:
        if c.name == "eq":
            consts |= set(x for x in inc.describe(c.args[1]))
    rep.check(consts == {"BusListenerScope::New()", "BusListenerScope::All()"}, "C10-R3", inc.def_, "includes_new-rows", "includes_new must be true exactly for New and All; compares against %s" % sorted(consts), detail={})
    pl = M["process_loop_result"]
    order = ["pop_remove_conn", "pop_create_object", "pop_create_service", "pop_destroy_service", "pop_destroy_object"]
    pops = {c.name: c for c in pl.calls if c.name in order}
    ok = set(pops) == set(order) and all(pl.dominates(pops[a].bb, pops[b].bb) and pops[a].bb != pops[b].bb for a, b in zip(order, order[1:]))
    rep.check(ok, "C10-R3", pl.def_, "queue-order", "queues must be drained in the order remove-conn, create-object, create-service, destroy-service, destroy-object", detail={"found": sorted(pops)})
    ctor = {"pop_create_object": "ObjectCreated", "pop_create_service": "ServiceCreated", "pop_destroy_service": "ServiceDestroyed", "pop_destroy_object": "ObjectDestroyed"}
    calls = [c for c in pl.calls if c.name == "emit_bus_event"]
    seen = {}
    for c in calls:
        for ds in pl.describe(c.args[2]):
            m = re.match(r"^BusEvent::(\w+)\(State::(\w+)\(state\)\.0\)$", ds)
            if m:
                seen[m.group(2)] = m.group(1)
    rep.check(seen == ctor, "C10-R3", pl.def_, "queue-event-kinds", "each queue must be announced with its own BusEvent constructor: %s" % seen, detail=seen)
    # every pop continues the loop (so that removals of connections always run first)
    callers = set(b.name for b in M.values() for c in b.calls if c.name == "emit_bus_event" and (c.callee or "").startswith("aldrin_broker::broker::Broker::"))
    rep.check(callers == {"process_loop_result"}, "C10-R3", eb.def_, "who-may-call", "emit_bus_event may only be called from the queue drain: %s" % sorted(callers), detail={})

    # ---- R4 predicate tables ---------------------------------------------------------------------------------
    mo = prog.one(r"^aldrin_core::bus_listener::BusListenerFilter::matches_object$")
    ok = const_row(mo, "true", [r"^Object=discr\(self\)$", r"^None=discr\(self\.0\)$"]) and const_row(mo, "false", [r"^Service=discr\(self\)$"])
    eqs = [c for c in mo.calls if c.name == "eq"]
    ok = ok and len(eqs) == 1 and bool(broker.has_guard(mo, eqs[0].bb, r"^Some=discr\(self\.0\)$")) and all_match(mo.describe(eqs[0].args[0]), r"^object\.uuid$") and all_match(mo.describe(eqs[0].args[1]), r"^self\.0\.0$")
    rep.check(ok, "C10-R4", mo.def_, "rows", "matches_object: Object(None) -> true, Object(Some(f)) -> object.uuid == f, Service(_) -> false", detail={})
    ms = prog.one(r"^aldrin_core::bus_listener::BusListenerFilter::matches_service$")
    mc = [c for c in ms.calls if mir.short_fn(c.callee) == "BusListenerServiceFilter::matches"]
    ok = const_row(ms, "false", [r"^Object=discr\(self\)$"]) and len(mc) == 1 and bool(broker.has_guard(ms, mc[0].bb, r"^Service=discr\(self\)$")) and all_match(ms.describe(mc[0].args[0]), r"^self\.0$") and all_match(ms.describe(mc[0].args[1]), r"^service$")
    rep.check(ok, "C10-R4", ms.def_, "rows", "matches_service: Object(_) -> false, Service(f) -> f.matches(service)", detail={})
    me = prog.one(r"^aldrin_core::bus_listener::BusListenerFilter::matches_event$")
    oc = [c for c in me.calls if c.name == "matches_object"]
    sc = [c for c in me.calls if c.name == "matches_service"]
    sw = [u for u in sorted(me.live_blocks()) if me.blocks[u]["t"]["k"] == "switch" and (me.switch_guard(u) or {}).get("kind") == "variant" and any_match(mir.describe_place(me, me.switch_guard(u)["place"], 8, set()), r"^event$")]
    ok = len(oc) == 1 and len(sc) == 1 and len(sw) == 1
    if ok:
        ok = me.edge_labels_reaching(sw[0], oc[0].bb) == {"ObjectCreated", "ObjectDestroyed"} and me.edge_labels_reaching(sw[0], sc[0].bb) == {"ServiceCreated", "ServiceDestroyed"}
    rep.check(ok, "C10-R4", me.def_, "rows", "matches_event must route object events to matches_object and service events to matches_service", detail={})
    fm = prog.one(r"^aldrin_core::bus_listener::BusListenerServiceFilter::matches$")
    eqs = [c for c in fm.calls if c.name == "eq"]
    cmp_obj = [c for c in eqs if all_match(fm.describe(c.args[0]), r"^id\.object_id\.uuid$")]
    cmp_svc = [c for c in eqs if all_match(fm.describe(c.args[0]), r"^id\.uuid$")]
    ok = const_row(fm, "true", [r"^None=discr\(", r"^None=discr\("]) and len(cmp_obj) == 2 and len(cmp_svc) == 2 and len(eqs) == 4
    ok = ok and all(bool(broker.has_guard(fm, c.bb, r"^Some=discr\(.*self\.object")) for c in cmp_obj) and all(bool(broker.has_guard(fm, c.bb, r"^Some=discr\(.*self\.service")) for c in cmp_svc)
    rep.check(ok, "C10-R4", fm.def_, "rows", "ServiceFilter::matches: (None,None) true; object compared exactly when Some; service compared exactly when Some", detail={"eq_sites": len(eqs), "guards": [fm.guard_strings(c.bb) for c in eqs]})


def const_row(body, value, guards):
    """some `_0 = const <value>` (or a bool local flowing to _0) sits under all the given guards"""
    for i in sorted(body.live_blocks()):
        for st in body.blocks[i]["s"]:
            if st["r"]["k"] == "use":
                k = mir.op_const(st["r"]["o"][0])
                if k is not None and k.get("repr") in (value, "const " + value) and k.get("ty") == "bool":
                    g = body.guard_strings(i)
                    if all(any(re.search(rx, x) for x in g) for rx in guards):
                        return True
    return False


def service_some_some_rows(body, subject):
    """`matches!(x, Service{object: Some(_), service: Some(_)})`: a `true` constant exists only under
    Service + Some + Some and a `false` exists"""
    t_ok = False
    f_seen = False
    for i in sorted(body.live_blocks()):
        for st in body.blocks[i]["s"]:
            if st["r"]["k"] == "use":
                k = mir.op_const(st["r"]["o"][0])
                if k is not None and k.get("ty") == "bool" and k.get("repr") in ("true", "false"):
                    g = body.guard_strings(i)
                    if k["repr"] == "true":
                        n_some = len([x for x in g if x.startswith("Some=discr(")])
                        if any(x.startswith("Service=discr(") for x in g) and n_some >= 2:
                            t_ok = True
                        else:
                            return False
                    else:
                        f_seen = True
    return t_ok and f_seen
