"""C18 — formatter preserves the schema (narrow: coverage matrix)."""
import os
import re
import tomllib

import engine
import mir

EXPLANATION = (
    "NARROW claim: a static coverage matrix of parser/src/fmt.rs against the AST (rustc MIR). Decided: (R1) for every AST node type (and Schema) every "
    "data accessor — everything but spans — is called by the formatter and its value reaches an emitting sink: a format argument of write!/writeln!, an "
    "argument of another emitting formatter function, or the condition of a branch that guards an emit; a value read only for layout decisions "
    "(is_multi_line*, newline*) does not count; accessors that are legitimately not printed (derived views of data printed through another accessor) "
    "are listed in tables/c18.toml with their reason; a new AST datum appears as a new obligation; (R2) every match of the formatter on an AST enum is "
    "exhaustive without wildcard, so a new node kind cannot be silently dropped; (R3) imports are sorted by schema name before they are emitted and the formatter visits all imports and definitions; (R4) in those dispatches every payload field of every variant is bound and its value reaches an emitting sink. (R5) no non-error path of a formatter "
    "function that emits a datum somewhere skips that emit unless a dominating test shows the datum to be empty / None (is_empty, is_some, the None arm of an Option, or the "
    "false result of a boolean helper / local whose falsity implies one of these); handing the whole node to an emitting function or dispatching on the datum counts as emitting. A datum "
    "that is never emitted cannot survive formatting — a necessary condition of 'parses to the same schema'. NOT decided: re-parse equality, diagnostics "
    "preservation, idempotence, the blank-line state machine."
)

AST = "aldrin_parser::ast::"
LAYOUT = re.compile(r"^(is_multi_line|newline)")


def is_emit(c):
    d = c.callee or ""
    if "fmt::rt::Argument" in d:
        return True
    if d.startswith("aldrin_parser::fmt::Formatter::") and not LAYOUT.match(c.name or ""):
        return True
    if c.name in ("write_all", "write_str", "write_fmt") and ("Write" in (c.trait or "") or "Write" in d):
        return True
    return False


def payload_emitted(b, stmt_dest, emits):
    """forward, flow-insensitive taint from a pattern binding to an emitting sink"""
    taint = {stmt_dest}
    changed = True
    while changed:
        changed = False
        for i in b.live_blocks():
            for st in b.blocks[i]["s"]:
                r = st["r"]
                src = set()
                if "p" in r and r["p"]:
                    src.add(r["p"][0])
                for o in r.get("o", []) or []:
                    pl = mir.op_place(o)
                    if pl is not None:
                        src.add(pl[0])
                if src & taint and st["d"][0] not in taint:
                    taint.add(st["d"][0])
                    changed = True
        for c in b.calls:
            if LAYOUT.match(c.name or "") and (c.callee or "").startswith("aldrin_parser::fmt::Formatter"):
                continue
            src = set()
            for a in c.args:
                pl = mir.op_place(a)
                if pl is not None:
                    src.add(pl[0])
            if src & taint and c.dest is not None and c.dest[0] not in taint:
                taint.add(c.dest[0])
                changed = True
    for e in emits:
        for a in e.args:
            pl = mir.op_place(a)
            if pl is not None and pl[0] in taint:
                return "emit:" + mir.short_fn(e.callee)
    for u in b.live_blocks():
        t = b.blocks[u]["t"]
        if t["k"] == "switch":
            pl = mir.op_place(t["d"])
            if pl is not None and pl[0] in taint and any(b.dominates(u, e.bb) and u != e.bb for e in emits):
                return "emit:BRANCH"
    return None


def run(rep):
    rep.explanation = EXPLANATION
    rep.trusted = ["rustc nightly MIR", "tables/c18.toml (reasoned exceptions)"]
    fdir = engine.ensure_facts("ws")
    prog = mir.Program(fdir, crates=["aldrin_parser"])
    tab = tomllib.load(open(os.path.join(engine.VERIF, "tables", "c18.toml"), "rb"))
    exc = {e["accessor"]: e["reason"] for e in tab["exception"]}
    partial = set(e["accessor"] for e in tab["exception"] if e.get("partial"))
    acc = {}
    for d, b in prog.bodies.items():
        st = b.impl_self or ""
        if b.kind == "AssocFn" and (st.startswith(AST) or st == "aldrin_parser::schema::Schema") and b.impl_trait is None and b.is_pub and b.argc == 1:
            t1 = b.locals[1]["ty"]
            if not t1.startswith("&") or t1.startswith("&mut"):
                continue
            ret = b.locals[0]["ty"]
            if ret.split("::")[-1].startswith("Span"):
                continue
            if st == "aldrin_parser::schema::Schema" and b.name not in ("comment", "doc", "imports", "definitions"):
                continue
            acc.setdefault(st, {})[b.name] = d
    n_acc = sum(len(v) for v in acc.values())
    rep.floor("C18-R1", "AST node types", len(acc), 30)
    rep.floor("C18-R1", "data accessors", n_acc, 80)
    fm = [b for d, b in prog.bodies.items() if d.startswith("aldrin_parser::fmt::Formatter::")]
    rep.floor("C18-R1", "formatter functions (incl. closures)", len(fm), 30)
    cov = {}
    for b in fm:
        emits = [c for c in b.calls if is_emit(c)]
        guards = None
        for c in b.calls:
            key = None
            for X, ms in acc.items():
                if (c.callee or "") == X + "::" + (c.name or "") and c.name in ms:
                    key = (X, c.name)
            if key is None:
                continue
            pat = "%s::%s(" % (key[0].split("::")[-1], key[1])
            how = cov.setdefault(key, set())
            how.add("called")
            for e in emits:
                for a in e.args:
                    if any(pat in ds for ds in b.describe(a)):
                        how.add("emit:" + mir.short_fn(e.callee))
            for u in b.live_blocks():
                t = b.blocks[u]["t"]
                if t["k"] != "switch":
                    continue
                g = b.switch_guard(u)
                ds = set()
                if g and g.get("call") is not None:
                    for a in g["call"].args:
                        ds |= b.describe(a)
                    ds.add(mir.short_fn(g["call"].callee) + "(")
                if g and g.get("place") is not None:
                    ds |= mir.describe_place(b, g["place"], 16, set())
                if g and g.get("cmp"):
                    ds |= b.describe(g["cmp"][1]) | b.describe(g["cmp"][2])
                if any(pat in x for x in ds) and any(b.dominates(u, e.bb) and u != e.bb for e in emits):
                    how.add("emit:BRANCH")
    for X, ms in sorted(acc.items()):
        for m, d in sorted(ms.items()):
            how = cov.get((X, m), set())
            emitted = any(h.startswith("emit:") for h in how)
            if d in exc:
                # a derived / partial view must not be what gets printed: printing `NamedRef::ident()` instead of the whole
                # reference silently drops the schema qualifier of an external reference
                rep.check(not (emitted and d in partial), "C18-R1", d, "partial-view-not-printed", "the formatter prints the derived view %s::%s() (%s); tables/c18.toml lists it as a partial view of data that must be printed through the complete accessor — the rest of the datum is dropped" % (X.replace(AST, ""), m, exc[d]),
                          detail={"uses": sorted(how)})
                rep.ok("C18-R1", "%s:excepted" % d, {"reason": exc[d]}, nontrivial=False, sample=False)
                # an exception that became unnecessary is fine; one that hides nothing is harmless
                continue
            rep.check(emitted, "C18-R1", d, "emitted", "AST datum %s::%s() is %s by the formatter: formatting would drop it (if it is a derived view of data printed elsewhere, record it in tables/c18.toml with the reason)" % (X.replace(AST, ""), m, "read only for layout or never emitted" if how else "never read"),
                      detail={"uses": sorted(how)})
    for a_ in exc:
        rep.check(any(a_ == d for ms in acc.values() for d in ms.values()), "C18-R1", a_, "exception-exists", "tables/c18.toml lists an accessor that no longer exists", detail={})
    rep.exhaustive["C18-R1"] = True

    # ---- R2 every AST enum has an exhaustive, emitting dispatch ----------------------------------------
    enums = sorted(a["def"] for a in prog.adts.values() if a["def"].startswith(AST) and a["kind"] == "Enum")
    rep.floor("C18-R2", "AST enums", len(enums), 7)
    disp = {}
    n = 0
    n_payload = 0
    for b in fm:
        if LAYOUT.match(b.name or ""):
            continue
        emits = [c for c in b.calls if is_emit(c)]
        for u in sorted(b.live_blocks()):
            if b.blocks[u]["t"]["k"] != "switch":
                continue
            g = b.switch_guard(u)
            if not g or g.get("kind") != "variant" or not (g.get("adt") or "").startswith(AST):
                continue
            n += 1
            t = b.blocks[u]["t"]
            named = set(v for (v, _bb) in t["v"])
            allv = set(g["labels"].keys())
            other_live = b.blocks[t["o"]]["t"]["k"] != "unreachable"
            exhaustive = (not other_live) or named == allv
            # each named arm must be able to reach an emit that the switch dominates
            arms_emit = all(any(e.bb in b.reachable(tb) for e in emits) for (_v, tb) in t["v"])
            if exhaustive and arms_emit:
                disp.setdefault(g["adt"], []).append(b.def_)
                # R4: every payload field of every variant is bound in its arm and reaches an emit
                adt = prog.adt(g["adt"])
                base = list(g["place"])
                for v in adt["variants"]:
                    for fi, _f in enumerate(v["fields"]):
                        want = base + ["@" + v["name"], ".%d" % fi]
                        binds = []
                        for i in sorted(b.live_blocks()):
                            for st in b.blocks[i]["s"]:
                                r = st["r"]
                                if r["k"] in ("ref", "use") and (r.get("p") or (mir.op_place(r["o"][0]) if r.get("o") else None) or [])[:len(want)] == want:
                                    binds.append(st["d"][0])
                        how = None
                        for d_ in binds:
                            how = how or payload_emitted(b, d_, emits)
                        n_payload += 1
                        rep.check(how is not None, "C18-R4", b.def_, "payload:%s::%s.%d" % (g["adt"].split("::")[-1], v["name"], fi),
                                  "the payload field %d of %s::%s is %s in this dispatch: formatting would drop it" % (fi, g["adt"].split("::")[-1], v["name"], "bound but never emitted" if binds else "not bound"),
                                  detail={"bound": len(binds), "how": how})
    for e in enums:
        rep.check(bool(disp.get(e)), "C18-R2", e, "exhaustive-dispatch", "no emitting formatter function matches on %s exhaustively without a wildcard arm (every arm reaching an emit): a node kind would be dropped silently" % e,
                  detail={"dispatch_in": disp.get(e, [])})
    rep.floor("C18-R2", "matches on AST enums in emitting functions", n, 7)
    rep.floor("C18-R4", "variant payload fields of AST enums", n_payload, 20)

    r5(rep, prog, fm, acc)

    # ---- R3 imports sorted ----------------------------------------------------------------------------
    im = prog.one(r"^aldrin_parser::fmt::Formatter::<'a>::imports$|^aldrin_parser::fmt::Formatter::imports$")
    srt = [c for c in im.calls if c.name in ("sort_by_key", "sort", "sort_by", "sort_unstable_by_key", "sort_by_cached_key")]
    emit = [c for c in im.calls if c.name == "import"]
    ok = len(srt) == 1 and bool(emit) and all(im.dominates(srt[0].bb, c.bb) for c in emit)
    keyok = False
    for cb in prog.closures_of(im.def_):
        names = [c.name for c in cb.calls]
        if "schema_name" in names and "value" in names:
            keyok = True
    # ... and nothing is dropped: between collecting the imports and emitting them only reordering / reading operations
    # touch the collection
    if srt:
        vec = im.base_through(srt[0].args[0])
        ALLOWED = re.compile(r"^(sort\w*|iter|into_iter|is_empty|len|deref|deref_mut|as_slice|as_mut_slice|from_iter|next|as_ref|borrow|borrow_mut)$")
        other = sorted(set(c.name for c in im.calls if c.args and im.base_through(c.args[0]) == vec and not ALLOWED.match(c.name or "")))
        rep.check(not other, "C18-R3", im.def_, "imports-all-emitted", "the collected imports may only be reordered before they are emitted; %s can drop entries (a duplicate import, its comments and the warning about it would disappear)" % other, detail={"ops": other})
    rep.check(ok and keyok, "C18-R3", im.def_, "imports-sorted", "imports must be sorted by schema name before they are emitted", detail={"sort_sites": len(srt)})
    # every import and every definition is visited
    sc = prog.one(r"^aldrin_parser::fmt::Formatter::<'a>::schema$|^aldrin_parser::fmt::Formatter::schema$")
    def passes(fn):
        return any(c.name == fn and (c.callee or "").startswith("aldrin_parser::fmt::Formatter") and len(c.args) == 3 and any("Schema::%s(schema)" % fn in d for d in sc.describe(c.args[2])) for c in sc.calls)
    ok = passes("imports") and passes("definitions")
    rep.check(ok, "C18-R3", sc.def_, "visits-all", "the formatter must visit all imports and all definitions of the schema", detail={})


# ---- R5: a datum may be skipped only when it is absent ------------------------------------------------

class Absence:
    """decides whether a CFG edge is evidence that a datum (an accessor result or a slice / Option parameter) is
    absent: `x.is_empty()` true, `x.is_some()` false, `None` of an Option / exhausted iterator over it, or the false
    result of a boolean helper / local whose falsity implies one of these (short-circuit `||` chains)."""

    def __init__(self, prog):
        self.prog = prog
        self.helper_cache = {}

    def mentions(self, b, operand, pats):
        for d in b.describe(operand):
            if any(p.search(d) for p in pats):
                return True
        return False

    def place_mentions(self, b, place, pats):
        for d in mir.describe_place(b, place, 16, set()):
            if any(p.search(d) for p in pats):
                return True
        return False

    def dom_evidence(self, b, bb, pats, seen):
        for (u, g, labels) in b.dominating_guards(bb):
            if self.edge_evidence(b, u, g, labels, pats, seen):
                return True
        return False

    def edge_evidence(self, b, u, g, labels, pats, seen):
        if g is None or not labels:
            return False
        if g["kind"] == "variant":
            return all(l == "None" for l in labels) and self.place_mentions(b, g["place"], pats)
        if g["kind"] == "bool":
            t = b.blocks[u]["t"]
            # labels are semantic (negation applied); recover the raw value of the switch operand
            val = labels[0]
            if g.get("neg"):
                val = not val
            return self.implies_absent(b, t["d"], val, pats, seen, 8)
        return False

    def implies_absent(self, b, operand, val, pats, seen, depth):
        """(operand == val) => datum absent"""
        p = mir.op_place(operand)
        if p is None:
            k = mir.op_const(operand)
            r = (k or {}).get("repr") if isinstance(k, dict) else None
            if r in ("true", "false"):
                return (r == "true") != val   # a constant that cannot have the value: vacuous
            return False
        if depth <= 0 or len(p) != 1:
            return False
        key = (b.def_, p[0], val)
        if key in seen:
            return False
        seen = seen | {key}
        dl = b.defs().get(p[0], [])
        if not dl:
            return False
        for ent in dl:
            if ent[0] == "stmt":
                bb, st = ent[1], ent[3]
                r = st["r"]
                ok = False
                if r["k"] in ("use", "cast"):
                    ok = self.implies_absent(b, r["o"][0], val, pats, seen, depth - 1)
                elif r["k"] == "un" and r["op"] == "Not":
                    ok = self.implies_absent(b, r["o"][0], not val, pats, seen, depth - 1)
                if not ok and not self.dom_evidence(b, bb, pats, seen):
                    return False
            elif ent[0] == "call":
                c = ent[2]
                ok = False
                if c.name in ("is_empty", "is_none") and c.args and self.mentions(b, c.args[0], pats):
                    ok = (val is True)
                elif c.name == "is_some" and c.args and self.mentions(b, c.args[0], pats):
                    ok = (val is False)
                elif val is False:
                    hb = self.prog.body(c.resolved or c.callee or "")
                    if hb is not None and hb.locals[0]["ty"] == "bool":
                        for j, a in enumerate(c.args):
                            if self.mentions(b, a, pats) and self.helper_false_implies_absent(hb, j + 1):
                                ok = True
                if not ok and not self.dom_evidence(b, c.bb, pats, seen):
                    return False
            else:
                return False
        return True

    def helper_false_implies_absent(self, hb, param_local):
        key = (hb.def_, param_local)
        if key not in self.helper_cache:
            self.helper_cache[key] = False
            name = hb.locals[param_local].get("name") or ("arg%d" % param_local)
            pats = [re.compile(r"(^|[^\w])%s([^\w]|$)" % re.escape(name))]
            self.helper_cache[key] = self.implies_absent(hb, ["c", [0]], False, pats, frozenset(), 8)
        return self.helper_cache[key]


def r5(rep, prog, fm, acc):
    A = Absence(prog)
    n = 0
    n_cond = 0
    enums = set(a["def"] for a in prog.adts.values() if a["def"].startswith(AST) and a["kind"] == "Enum")
    # accessors that hand out an AST enum: data read from its payload exist in one arm only (R4's business)
    enum_returning = set()
    for X, ms in acc.items():
        for m, d in ms.items():
            if any(e in prog.body(d).locals[0]["ty"] for e in enums):
                enum_returning.add("%s::%s" % (X.split("::")[-1], m))
    for b in sorted(fm, key=lambda x: x.def_):
        if LAYOUT.match(b.name or "") or b.kind == "Closure":
            continue
        emits = [c for c in b.calls if is_emit(c)]
        if not emits:
            continue
        data = {}   # label -> patterns
        for c in b.calls:
            for X, ms in acc.items():
                if (c.callee or "") == X + "::" + (c.name or "") and c.name in ms:
                    lab = "%s::%s" % (X.split("::")[-1], c.name)
                    pats = data.setdefault(lab, {"own": re.compile(re.escape(lab + "(")), "anc": set(), "recv": set(), "payload": False})
                    for d in b.describe(c.args[0]):
                        pats["recv"].add(d)
                        for m in re.finditer(r"(\w+::\w+)\(", d):
                            pats["anc"].add(m.group(1))
                        m = re.match(r"^(\w+)\.\d", d)
                        if m and any(b.locals[l].get("name") == m.group(1) and any(e in b.locals[l]["ty"] for e in enums) for l in range(1, b.argc + 1)):
                            pats["payload"] = True
        for l in range(1, b.argc + 1):
            ty = b.locals[l]["ty"]
            nm = b.locals[l].get("name")
            if nm and AST[:-2] in ty and (ty.startswith("&[") or ty.startswith("std::option::Option<") or ty.startswith("&std::vec::Vec<")):
                data["param " + nm] = {"own": re.compile(r"(^|[^\w])%s([^\w]|$)" % re.escape(nm)), "anc": set(), "recv": set(), "payload": False}
        # error exits: the Break edge of every `?`
        err_edges = set()
        for u in b.live_blocks():
            t = b.blocks[u]["t"]
            if t["k"] != "switch":
                continue
            g = b.switch_guard(u)
            if g and g.get("kind") == "variant" and (g.get("adt") or "").endswith("ControlFlow"):
                for v in b.succ(u):
                    if "Break" in (b.edge_label(u, v) or []):
                        err_edges.add((u, v))
        for lab, ps in sorted(data.items()):
            own = [ps["own"]]
            if ps["payload"] or ps["anc"] & enum_returning:
                continue   # read from the payload of one variant: bound-and-emitted is decided by R4
            sites = set(e.bb for e in emits if any(A.mentions(b, a, own) for a in e.args))
            if not sites:
                continue   # emitted elsewhere (passed on by the caller) or excepted: R1's business
            # handing the whole node to an emitting function emits the datum too
            sites |= set(e.bb for e in emits if any(b.describe(a) & ps["recv"] for a in e.args))
            # a dispatch on the datum itself (match on an AST enum / integer) emits it through the chosen arm
            for u in b.live_blocks():
                if b.blocks[u]["t"]["k"] != "switch":
                    continue
                g = b.switch_guard(u)
                if g and ((g.get("kind") == "variant" and (g.get("adt") or "") in enums and A.place_mentions(b, g["place"], own)) or (g.get("kind") == "int" and g.get("call") is not None and any(A.mentions(b, a, own) for a in g["call"].args))):
                    if any(b.dominates(u, e.bb) and u != e.bb for e in emits):
                        sites.add(u)
            pats = own + [re.compile(re.escape(a + "(")) for a in sorted(ps["anc"])]
            cut = set(err_edges)
            for u in b.live_blocks():
                t = b.blocks[u]["t"]
                if t["k"] != "switch":
                    continue
                g = b.switch_guard(u)
                for v in set(b.succ(u)):
                    labs = b.edge_label(u, v)
                    if A.edge_evidence(b, u, g, labs, pats, frozenset()):
                        cut.add((u, v))
            reach = b.reachable(0, without_nodes=sites, without_edges=cut)
            skipped = [e for e in b.exits() if e in reach]
            n += 1
            if any(u for (u, v) in cut - err_edges):
                n_cond += 1
            rep.check(not skipped, "C18-R5", b.def_, "skip-only-when-absent:%s" % lab,
                      "there is a non-error path through this formatter function that emits nothing for %s although no dominating test shows it to be empty / None: the datum would be dropped" % lab,
                      line=b.span, detail={"emit_blocks": sorted(sites), "evidence_edges": len(cut - err_edges)})
    rep.floor("C18-R5", "data with an emit site in the function that reads them", n, 40)
    rep.floor("C18-R5", "data whose emission is conditional on an absence test", n_cond, 10)
