"""Raw (panicking) buffer accesses and the length guards that must dominate them (C07-R3/R4,
also used for the message deserializers of C08)."""
import re

import mir
import sig

RAW_BUF = {"advance": "n", "copy_to_slice": "dst", "copy_to_bytes": "n", "split_to": "n", "split_off": "n",
           "get_u8": 1, "get_i8": 1, "get_u16_le": 2, "get_i16_le": 2, "get_u32_le": 4, "get_i32_le": 4, "get_u64_le": 8, "get_i64_le": 8,
           "get_f32_le": 4, "get_f64_le": 8, "get_u16": 2, "get_u32": 4, "get_u64": 8}
ALLOC = {"with_capacity", "reserve", "reserve_exact", "resize", "zeroed", "set_len", "from_elem", "resize_with"}
LEN_CALLS = {"len", "remaining", "capacity"}


def is_bytes_crate(c):
    d = c.callee or ""
    r = c.resolved or ""
    return d.startswith("bytes::") or r.startswith("bytes::") or r.startswith("<bytes::") or sig.is_buf(c)


class Site:
    def __init__(self, body, bb, kind, need, line, buf=None):
        self.body = body
        self.bb = bb
        self.kind = kind      # e.g. 'advance', 'index', 'bounds', 'get_u32_le', 'alloc:with_capacity'
        self.need = need      # operand | int | None  (bytes required / index bound)
        self.line = line
        self.buf = buf

    def key(self):
        return "%s:%s" % (self.body.def_, self.kind)


def raw_sites(body):
    """every raw access in the body"""
    out = []
    for c in body.calls:
        nm = c.name
        if is_bytes_crate(c) and nm in RAW_BUF:
            spec = RAW_BUF[nm]
            if spec == "n":
                need = c.args[1]
            elif spec == "dst":
                n = sig.array_len_of_arg(body, c.args[1])
                need = n if n is not None else c.args[1]
            else:
                need = spec
            # `(&buf[..4]).get_u32_le()`: reading from a fresh sub-slice of exactly the needed size
            out.append(Site(body, c.bb, nm, need, c.line, c.args[0] if c.args else None))
        elif nm in ("index", "index_mut") and (c.trait or "").endswith(("ops::Index", "ops::IndexMut")):
            st = c.self_ty or ""
            if not (st.startswith("[") or "BytesMut" in st or "bytes::Bytes" in st or st.endswith("]") or "Vec<u8>" in st):
                continue
            out.append(Site(body, c.bb, "index", c.args[1], c.line, c.args[0]))
    for i in body.live_blocks():
        t = body.blocks[i]["t"]
        if t["k"] == "assert" and t.get("m") == "bounds":
            # cond = Lt(index, len): the access needs index + 1 elements
            need = None
            p = mir.op_place(t["c"])
            if p is not None:
                for ent in body.defs().get(p[0], []):
                    if ent[0] == "stmt" and ent[3]["r"]["k"] == "bin" and ent[3]["r"]["op"] == "Lt":
                        need = ("idx", ent[3]["r"]["o"][0])
            out.append(Site(body, i, "bounds", need, t["l"]))
    return out


def alloc_sites(body):
    out = []
    for c in body.calls:
        if c.name in ALLOC and c.callee and not c.callee.startswith("aldrin_"):
            arg = c.args[-1] if c.args else None
            if c.name in ("resize", "resize_with") and len(c.args) >= 2:
                arg = c.args[1]
            if c.name in ("with_capacity", "zeroed", "from_elem") and c.args:
                arg = c.args[0] if c.name != "from_elem" else c.args[-1]
            out.append(Site(body, c.bb, "alloc:" + c.name, arg, c.line))
    return out


def _range_bound(body, operand):
    """for an index operand that is a Range/RangeTo/RangeFrom aggregate: the operand of its upper
    bound (or lower bound for RangeFrom); for a plain index: the operand itself (+1 needed)"""
    p = mir.op_place(operand)
    if p is None:
        return ("idx", operand)
    for ent in body.defs().get(p[0], []):
        if ent[0] == "stmt":
            r = ent[3]["r"]
            if r["k"] == "agg" and r.get("ak") == "adt":
                a = r["adt"]
                if a.endswith("ops::RangeTo") or a.endswith("range::RangeTo"):
                    return ("end", r["o"][0])
                if a.endswith("ops::Range") or a.endswith("range::Range"):
                    return ("end", r["o"][1])
                if a.endswith("ops::RangeFrom") or a.endswith("range::RangeFrom"):
                    return ("end", r["o"][0])
                if a.endswith("RangeFull"):
                    return ("full", None)
                if a.endswith("RangeToInclusive") or a.endswith("RangeInclusive"):
                    return ("idx", r["o"][-1])
            if r["k"] == "use":
                return _range_bound(body, r["o"][0])
    return ("idx", operand)


def _len_like(body, operand):
    """does the operand originate from a len()/remaining() call (possibly minus a constant)?"""
    for o in body.origins(operand, depth=8):
        if o[0] == "call":
            c = body.call_at(o[1])
            if c and c.name in LEN_CALLS:
                return True
    return False


def _origin_keys(body, operand, depth=4):
    """origins of an operand, looking through arithmetic (both operands of a binary op)"""
    out = set()
    for o in body.origins(operand, depth=10):
        if o[0] in ("call", "param", "upvar"):
            out.add(o)
        elif o[0] in ("bin", "un") and depth > 0:
            r = body.blocks[o[1]]["s"][o[2]]["r"]
            for sub in r["o"]:
                out |= _origin_keys(body, sub, depth - 1)
        elif o[0] == "agg" and depth > 0:
            # (value, overflowed) tuple of checked arithmetic
            pass
    # checked arithmetic: `_t = AddWithOverflow(a, b); x = move _t.0`
    p = mir.op_place(operand)
    if p is not None and depth > 0:
        for ent in body.defs().get(p[0], []):
            if ent[0] == "stmt" and ent[3]["r"]["k"] == "use":
                q = mir.op_place(ent[3]["r"]["o"][0])
                if q is not None and len(q) == 2 and q[1] == ".0":
                    for e2 in body.defs().get(q[0], []):
                        if e2[0] == "stmt" and e2[3]["r"]["k"] == "bin":
                            for sub in e2[3]["r"]["o"]:
                                out |= _origin_keys(body, sub, depth - 1)
    return out


def guard_level(site):
    """'strong'  : dominated by the passing edge of a comparison  len()/remaining() >= the very
                    quantity the access needs (same origin, or constants with bound >= need)
       'weak'    : dominated by some comparison involving len()/remaining()
       'none'    : no length comparison dominates the access"""
    body = site.body
    need = site.need
    need_const = None
    need_keys = set()
    if site.kind == "index":
        how, op = _range_bound(body, need)
        if how == "full":
            return "strong", "full range"
        need_const = sig.const_int(body, op) if op is not None else None
        if need_const is not None and how == "idx":
            need_const += 1
        if op is not None and need_const is None:
            need_keys = _origin_keys(body, op)
    elif isinstance(need, tuple) and need[0] == "idx":
        need_const = sig.const_int(body, need[1])
        if need_const is not None:
            need_const += 1
        else:
            need_keys = _origin_keys(body, need[1])
    elif isinstance(need, int):
        need_const = need
    elif need is not None:
        need_const = sig.const_int(body, need)
        if need_const is None:
            need_keys = _origin_keys(body, need)
    # reading a primitive from a fresh sub-slice `(&buf[..4]).get_u32_le()` is covered by the index site
    if site.kind in RAW_BUF and site.buf is not None and isinstance(need_const, int):
        for o in body.origins(site.buf, depth=6):
            if o[0] == "call":
                c = body.call_at(o[1])
                if c and c.name in ("index", "index_mut"):
                    how, op = _range_bound(body, c.args[1])
                    n = sig.const_int(body, op) if op is not None else None
                    lo = 0
                    # Range{start,end}
                    p = mir.op_place(c.args[1])
                    if p is not None:
                        for ent in body.defs().get(p[0], []):
                            if ent[0] == "stmt" and ent[3]["r"]["k"] == "agg" and ent[3]["r"].get("adt", "").endswith("ops::Range"):
                                lo = sig.const_int(body, ent[3]["r"]["o"][0]) or 0
                    if n is not None and n - lo >= need_const:
                        return "strong", "sub-slice of %d bytes" % (n - lo)
    level = "none"
    why = None
    for (u, g, labels) in body.dominating_guards(site.bb):
        if g is None or g.get("kind") != "bool":
            continue
        val = labels[0] if labels else None
        cmp = g.get("cmp")
        if cmp is None:
            continue
        op, lhs, rhs = cmp
        # normalise to  big >= small (+strict)
        big = small = None
        strict = False
        if (op == "Ge" and val is True) or (op == "Lt" and val is False):
            big, small = lhs, rhs
        elif (op == "Le" and val is True) or (op == "Gt" and val is False):
            big, small = rhs, lhs
        elif (op == "Gt" and val is True) or (op == "Le" and val is False):
            big, small, strict = lhs, rhs, True
        elif (op == "Lt" and val is True) or (op == "Ge" and val is False):
            big, small, strict = rhs, lhs, True
        elif (op == "Eq" and val is True) or (op == "Ne" and val is False):
            # len == n  implies len >= n
            if _len_like(body, lhs):
                big, small = lhs, rhs
            elif _len_like(body, rhs):
                big, small = rhs, lhs
        if big is None:
            continue
        if not _len_like(body, big):
            # 255 - N style guards of the varint readers: quantity derived from the compared value
            if need_keys and (need_keys & (_origin_keys(body, big) | _origin_keys(body, small))):
                if level == "none":
                    level, why = "weak", "comparison on the same quantity at bb%d" % u
            continue
        if level == "none":
            level, why = "weak", "len comparison at bb%d" % u
        sc = sig.const_int(body, small)
        if need_const is not None and sc is not None:
            if sc + (1 if strict else 0) >= need_const:
                return "strong", "len >= %d at bb%d covers %d" % (sc + (1 if strict else 0), u, need_const)
        elif need_keys and (need_keys & _origin_keys(body, small)):
            return "strong", "len >= same quantity at bb%d" % u
    return level, why
