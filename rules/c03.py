"""C03 — object/service registry: uniqueness, ownership, cascading destruction (structural clauses)."""
import os
import re
import tomllib

import broker
import engine
import mir
import sig
from c02 import all_match, any_match

EXPLANATION = (
    "Static rules over the registry handlers of the broker (rustc MIR). Decided: (R1) the uuid-keyed and cookie-keyed maps, the statistics gauge, the "
    "queued bus event and the owner-side set of an object / service are mutated together on every path of every Broker method (soft members may be skipped "
    "only where the owner is already gone), insertions happen on the Vacant edge of the uuid-keyed entry and after the successful reply; (R2) every "
    "destroying or service-adding effect reached from a message handler is dominated by the false edge of `owner != requester`; (R3) the reply of "
    "create/destroy object/service is Ok / Duplicate / InvalidObject / ForeignObject exactly under the lookup results the property states (16-row table "
    "against the extracted guard sets, both directions); (R4) remove_object removes every service of the object, a disconnect removes every owned object; "
    "(R5) cookies are fresh (one new_v4 per creating handler, used for the reply, the map key, the owner-side set and the bus event); (R6) queries and "
    "subscriptions answer InvalidService exactly on the None edge of the cookie lookup. Not decided: HashMap semantics, uniqueness as a history invariant."
)


def tok_name(t):
    if t[0] == "MAP":
        return "MAP:%s:%s" % (t[1], t[2])
    if t[0] == "GAUGE":
        return "GAUGE:%s:%s" % (t[1], t[2])
    if t[0] == "PUSH":
        return "PUSH:%s" % t[1]
    if t[0] == "CALL":
        return "CALL:%s" % t[1]
    return t[0]


def run(rep):
    rep.explanation = EXPLANATION
    rep.trusted = ["rustc nightly MIR", "HashMap entry API semantics (Vacant = key absent)", "uuid::Uuid::new_v4 freshness", "tables/c03.toml"]
    prog = broker.load(config=engine.config_for("C03"))
    M = broker.methods(prog)
    tab = tomllib.load(open(os.path.join(engine.VERIF, "tables", "c03.toml"), "rb"))

    # ---- R1 co-mutation ---------------------------------------------------------------------
    soft_calls = {"ConnectionState::add_object", "ConnectionState::remove_object", "Object::add_service", "Object::remove_service"}

    def ev(c):
        e = broker.state_event(c)
        if e:
            return e
        sf = mir.short_fn(c.callee)
        if sf in soft_calls:
            return [("CALL", sf, c.bb)]
        return None

    n_paths = 0
    groups_seen = set()
    # without the `statistics` feature the gauges do not exist (thorough tier, feature-reduced builds)
    has_stats = "statistics" in prog.features.get("aldrin_broker", [])
    for name, b in sorted(M.items()):
        try:
            paths = broker.event_paths(prog, b, ev)
        except sig.PathExplosion:
            rep.fail("C03-R1", b.def_, "paths", "path bound exceeded; rule fails closed")
            continue
        for (toks, shape) in paths:
            evs = [tok_name(t) for t in broker.cancel_absent(toks)]
            for g in tab["group"]:
                for side in ("insert", "remove"):
                    hard = [h for h in g[side] if has_stats or not h.startswith("GAUGE:")]
                    counts = [evs.count(h) for h in hard]
                    soft = g.get(side + "_soft", [])
                    scounts = [evs.count(h) for h in soft]
                    if not any(counts) and not any(scounts):
                        continue
                    n_paths += 1
                    groups_seen.add((g["name"], side))
                    ok = len(set(counts)) == 1 and all(sc <= counts[0] for sc in scounts)
                    rep.check(ok, "C03-R1", b.def_, "co-mutation:%s:%s" % (g["name"], side),
                              "the %s group must be mutated together; this path (%s) has %s" % (g["name"], "Err" if shape and shape[0] == "Err" else "Ok", dict(zip(hard + soft, counts + scounts))),
                              line=b.span, detail={"events": evs})
    rep.floor("C03-R1", "mutating paths", n_paths, 8)
    rep.floor("C03-R1", "group sides seen", len(groups_seen), 4)
    # soft members must occur on the edge where the owner exists
    for (fn, callee, owner_rx) in [("remove_object", "remove_object", r"^Some=discr\(self\.conns\[Object::conn_id\(self\.objs\.remove\("), ("remove_service", "remove_service", r"^Some=discr\(self\.objs\[")]:
        b = M[fn]
        cs = [c for c in b.calls if mir.short_fn(c.callee) in ("ConnectionState::" + callee, "Object::" + callee)]
        rep.check(len(cs) == 1 and bool(broker.has_guard(b, cs[0].bb, owner_rx)), "C03-R1", b.def_, "soft-member-on-owner-edge", "the owner-side set must be updated exactly where the owner still exists", detail={"n": len(cs)})
    # insertion: Vacant edge + after successful reply
    for (fn, mapname, msg) in [("create_object", "objs", "CreateObjectReply"), ("create_service", "svcs", "CreateServiceReply"), ("create_service2", "svcs", "CreateServiceReply")]:
        b = M[fn]
        ins = [c for c in b.calls if c.name == "insert" and any_match(b.describe(c.args[0]), r"^self\.%s\.entry\(" % mapname)]
        ok = len(ins) == 1 and bool(broker.has_guard(b, ins[0].bb, r"^Vacant=discr\(self\.%s\.entry\(" % mapname)) and bool(broker.has_guard(b, ins[0].bb, r"^Continue=discr\(ConnectionState::send\(self\.conns\[id\].*%s" % msg))
        rep.check(ok, "C03-R1", b.def_, "insert-vacant-after-reply", "the registry insertion must be on the Vacant edge of the uuid-keyed entry and after the reply was sent successfully", detail={"n": len(ins)})
        # key of the entry = the uuid the request names
        ent = [c for c in b.calls if c.name == "entry" and any_match(b.describe(c.args[0]), r"^self\.%s$" % mapname)]
        want = r"^req\.uuid$" if fn == "create_object" else r"^\(self\.obj_uuids\[req\.object_cookie\]\.0, req\.uuid\)$"
        rep.check(len(ent) == 1 and all_match(b.describe(ent[0].args[1]), want), "C03-R1", b.def_, "entry-key", "the uniqueness lookup must be keyed by the requested uuid", detail={"key": sorted(b.describe(ent[0].args[1])) if ent else None})

    # ---- R2 owner checks ------------------------------------------------------------------------
    owner = r"^False=PartialEq::ne\(Object::conn_id\(self\.objs\[.*\]\), id\)$"
    for (fn, effect) in [("destroy_object", "remove_object"), ("destroy_service", "remove_service"), ("create_service", "add_service"), ("create_service2", "add_service")]:
        b = M[fn]
        cs = [c for c in b.calls if c.name == effect]
        rep.check(bool(cs) and all(bool(broker.has_guard(b, c.bb, owner)) for c in cs), "C03-R2", b.def_, "owner-check:%s" % effect, "%s must be dominated by the false edge of `owner != requester`" % effect, detail={"sites": len(cs)})
        # argument of the effect is the entity the request names
        if effect.startswith("remove_"):
            rep.check(bool(cs) and all(all_match(b.describe(c.args[2]), r"^req\.cookie$") for c in cs), "C03-R2", b.def_, "effect-arg:%s" % effect, "%s must be applied to the cookie named by the request" % effect, detail={})
    # who may call the removal helpers: handlers behind the owner check, the cascades and the disconnect path
    callers = {}
    for name, b in M.items():
        for c in b.calls:
            if c.name in ("remove_object", "remove_service") and (c.callee or "").startswith("aldrin_broker::broker::Broker::"):
                callers.setdefault(c.name, set()).add(name)
    rep.check(callers.get("remove_object") == {"destroy_object", "shutdown_connection"}, "C03-R2", M["remove_object"].def_, "who-may-call", "remove_object may only be called from destroy_object (owner-checked) and shutdown_connection; callers: %s" % sorted(callers.get("remove_object", [])), detail={})
    rep.check(callers.get("remove_service") == {"destroy_service", "remove_object"}, "C03-R2", M["remove_service"].def_, "who-may-call", "remove_service may only be called from destroy_service (owner-checked) and remove_object; callers: %s" % sorted(callers.get("remove_service", [])), detail={})
    # new objects are owned by the requester
    co = M["create_object"]
    newobj = [c for c in co.calls if mir.short_fn(c.callee) == "Object::new"]
    rep.check(len(newobj) == 1 and all_match(co.describe(newobj[0].args[0]), r"^id$"), "C03-R2", co.def_, "owner-is-requester", "a created object must be owned by the requesting connection", detail={})

    # ---- R3 reply table ----------------------------------------------------------------------------
    by_handler = {}
    for r in tab["reply"]:
        by_handler.setdefault((r["handler"], r["msg"]), []).append(r)
    for (h, msg), rows in sorted(by_handler.items()):
        b = M[h]
        ss = [s for s in broker.sends(b) if s.msg_type == msg]
        rep.check(len(ss) == len(rows), "C03-R3", b.def_, "reply-count:%s" % msg, "%s has %d %s sends, the decision table has %d rows" % (h, len(ss), msg, len(rows)), detail={})
        for row in rows:
            cand = [s for s in ss if any_match(s.fields.get("result", []), row["result"])]
            if len(cand) != 1:
                rep.fail("C03-R3", b.def_, "row:%s" % row["result"], "expected exactly one %s with result %s, found %d" % (msg, row["result"], len(cand)))
                continue
            s = cand[0]
            g = b.guard_strings(s.bb)
            missing = [rx for rx in row["guards"] if not any(re.search(rx, x) for x in g)]
            ok = not missing and all_match(s.fields.get("serial", []), r"^req\.serial$") and all_match(s.target, r"^self\.conns\[id\]")
            rep.check(ok, "C03-R3", b.def_, "row:%s" % row["result"].replace("\\", ""), "reply %s must be sent to the requester with its serial exactly under %s; holding: %s" % (row["result"].replace("\\", ""), row["guards"], g), line=s.line,
                      detail={"guards": g})
    rep.exhaustive["C03-R3"] = True

    # ---- R4 cascades -------------------------------------------------------------------------------
    robj = M["remove_object"]
    rsv = [c for c in robj.calls if c.name == "remove_service"]
    rep.check(bool(rsv) and all(any_match(robj.describe(c.args[2]), r"Object::services\(self\.objs\.remove\(") for c in rsv), "C03-R4", robj.def_, "cascade-services", "remove_object must remove every service of the removed object", detail={})
    sd = M["shutdown_connection"]
    tm = broker.teardown_must_pass(sd, ["objects"])
    rep.check(tm.get("objects"), "C03-R4", sd.def_, "disconnect-always-removes-objects", "once the connection was taken out of self.conns every path of shutdown_connection must remove its objects (and thereby their services); an early return leaves them registered with no owner", detail={})
    ro = [c for c in sd.calls if c.name == "remove_object"]
    rep.check(bool(ro) and all(any_match(sd.describe(c.args[2]), r"ConnectionState::objects\(self\.conns\.remove\(id\)") for c in ro), "C03-R4", sd.def_, "disconnect-objects", "a disconnect must remove every object owned by the connection", detail={})

    # ---- R5 fresh cookies ----------------------------------------------------------------------------
    for (fn, ctor, uses) in [("create_object", "ObjectCookie::new_v4", ["obj_uuids", "Object::new", "add_object", "push_create_object"]),
                             ("create_service", "ServiceCookie::new_v4", ["svc_uuids", "Service::new", "add_service", "push_create_service"]),
                             ("create_service2", "ServiceCookie::new_v4", ["svc_uuids", "Service::new", "add_service", "push_create_service"])]:
        b = M[fn]
        nv = [c for c in b.calls if mir.short_fn(c.callee) == ctor]
        rep.check(len(nv) == 1, "C03-R5", b.def_, "one-fresh-cookie", "%s must draw exactly one fresh cookie" % fn, detail={"n": len(nv)})
        for u in uses:
            cs = [c for c in b.calls if (c.name == "insert" and any_match(b.describe(c.args[0]), r"^self\.%s$" % u)) or mir.short_fn(c.callee) == u or c.name == u]
            ok = bool(cs) and all(any(ctor + "()" in ds for a in c.args for ds in b.describe(a)) for c in cs)
            rep.check(ok, "C03-R5", b.def_, "cookie-use:%s" % u, "%s must use the freshly drawn cookie" % u, detail={"sites": len(cs)})

    # ---- R6 liveness of queries ---------------------------------------------------------------------
    for q in tab["query"]:
        b = M[q["handler"]]
        ss = [s for s in broker.sends(b) if s.msg_type == q["msg"]]
        inv = [s for s in ss if any_match(s.fields.get("result", []), q["invalid"])]
        lookup = r"discr\(self\.svc_uuids\[%s\]\)$" % re.escape(q["cookie"])
        if q["handler"] in ("query_service_version", "query_service_info"):
            # the reply is built by a match on the lookup; the InvalidService aggregate sits on the None edge
            ok = False
            for i in b.live_blocks():
                for st in b.blocks[i]["s"]:
                    r = st["r"]
                    if r["k"] == "agg" and r.get("variant") == "InvalidService":
                        ok = bool(broker.has_guard(b, i, r"^None=" + lookup))
            okv = False
            for i in b.live_blocks():
                for st in b.blocks[i]["s"]:
                    r = st["r"]
                    if r["k"] == "agg" and r.get("variant") == "Ok" and "Result" in r.get("adt", "") and "Query" in r.get("adt", ""):
                        okv = bool(broker.has_guard(b, i, r"^Some=" + lookup))
            rep.check(ok and okv, "C03-R6", b.def_, "invalid-service-iff-unknown", "%s must answer InvalidService exactly on the None edge of svc_uuids.get(%s)" % (q["handler"], q["cookie"]), detail={})
            continue
        ok = len(inv) == 1 and bool(broker.has_guard(b, inv[0].bb, r"^None=" + lookup))
        others = [s for s in ss if s not in inv]
        ok2 = all(bool(broker.has_guard(b, s.bb, r"^Some=" + lookup)) for s in others)
        rep.check(ok and ok2, "C03-R6", b.def_, "invalid-service-iff-unknown", "%s must answer InvalidService exactly on the None edge of svc_uuids.get(%s)" % (q["handler"], q["cookie"]),
                  detail={"invalid_sites": len(inv), "other_sites": len(others)})
