"""C05 — channels: end state machine and credit check (narrow structural clauses)."""
import re

import broker
import engine
import mir
from c02 import all_match, any_match

EXPLANATION = (
    "Static decision-row and guard rules over broker/src/broker/channel.rs and the channel handlers (rustc MIR). Decided: (R1) the result rows of "
    "Channel::{check_close, claim_sender, claim_receiver, close} equal the specified end state machine (claim only from Unclaimed; AlreadyClaimed / "
    "InvalidChannel otherwise; close Ok for Unclaimed or own Claimed, ForeignChannel for a foreign Claimed end, InvalidChannel when Closed; the end is "
    "always marked Closed and the peer is named exactly when it is Claimed); (R2) ItemReceived is forwarded only on the Ok edge of Channel::send_item, "
    "whose Ok exit is dominated by the sender-identity check, the claimed-receiver edge and the false edge of `sender_capacity == 0`, and on which both "
    "credit counters are decremented by one; capacity exhaustion closes the sender end only; (R3) add_capacity uses checked_add and its overflow edge "
    "reaches remove_channel_end(Receiver) and nothing else; (R4) peer notifications are dominated by close()->Some / claim->Ok and the channel is removed "
    "(gauge decremented) exactly on the remove edge; (R5) on the client, every site that takes a capacity grant out of the sender's queue adds it to the sender's credit before "
    "polling again; (R6) wherever the broker computes credit to announce to the sender it also records it (sender credit := receiver credit) on that path. NOT decided (the larger part of the property): credit arithmetic over unbounded histories, in-order "
    "exactly-once delivery, client-side replenishment."
)

CH = "aldrin_broker::broker::channel::Channel::"


def rows(body):
    """(description of the aggregate, block, guards) for every enum/tuple aggregate built in the body"""
    out = []
    for i in sorted(body.live_blocks()):
        for st in body.blocks[i]["s"]:
            r = st["r"]
            if r["k"] == "agg" and r.get("ak") == "adt":
                out.append(("%s::%s" % (r["adt"].split("::")[-1], r["variant"]), i, body.guard_strings(i), st))
    return out


def expect_row(rep, rule, body, variant, guards, inst=None, absent=()):
    rs = [r for r in rows(body) if re.search(variant, r[0])]
    ok = bool(rs)
    missing = []
    for (_v, _i, g, _s) in rs:
        for rx in guards:
            if not any(re.search(rx, x) for x in g):
                ok = False
                missing.append(rx)
        for rx in absent:
            if any(re.search(rx, x) for x in g):
                ok = False
                missing.append("!" + rx)
    rep.check(ok, rule, body.def_, inst or ("row:" + variant.replace("\\", "")), "row %s must hold exactly under %s (sites: %d, unmet: %s)" % (variant.replace("\\", ""), guards, len(rs), missing),
              line=body.span, detail={"sites": [(v, g) for (v, _i, g, _s) in rs]})
    return rs


def run(rep):
    rep.explanation = EXPLANATION
    rep.trusted = ["rustc nightly MIR", "u32::checked_add semantics", "std::mem::replace"]
    prog = broker.load(config=engine.config_for("C05"))
    M = broker.methods(prog)
    B = lambda n: prog.one("^" + re.escape(CH + n) + "$")

    # ---- R1 end-state tables ---------------------------------------------------------------------
    cc = B("check_close")
    expect_row(rep, "C05-R1", cc, r"CloseChannelEndResult::InvalidChannel", [r"^Closed=discr\(self\.(sender|receiver)\)"])
    expect_row(rep, "C05-R1", cc, r"CloseChannelEndResult::ForeignChannel", [r"^Claimed=discr\(self\.(sender|receiver)\)", r"^False=PartialEq::eq\(self\.(receiver|sender)\.owner.*, conn_id\)$"])
    okrows = [r for r in rows(cc) if r[0] == "CloseChannelEndResult::Ok"]
    a = [r for r in okrows if any(re.search(r"^Unclaimed=discr\(", x) for x in r[2])]
    b_ = [r for r in okrows if any(re.search(r"^Claimed=discr\(", x) for x in r[2]) and any(re.search(r"^True=PartialEq::eq\(self\.(receiver|sender)\.owner.*, conn_id\)$", x) for x in r[2])]
    rep.check(len(okrows) == 2 and len(a) == 1 and len(b_) == 1, "C05-R1", cc.def_, "row:Ok", "close is Ok exactly for an Unclaimed end or an end Claimed by the requester", detail={"rows": [(v, g) for (v, _i, g, _s) in okrows]})
    # the (result, claimed) tuples
    tup = {}
    for i in sorted(cc.live_blocks()):
        for st in cc.blocks[i]["s"]:
            if st["d"] == [0] and st["r"]["k"] == "agg" and st["r"].get("ak") == "tuple":
                d0 = sorted(cc.describe(st["r"]["o"][0]))
                d1 = sorted(cc.describe(st["r"]["o"][1]))
                tup[(tuple(d0), tuple(d1))] = cc.guard_strings(i)
    want = {("CloseChannelEndResult::InvalidChannel()", "const:false"), ("CloseChannelEndResult::ForeignChannel()", "const:true")}
    have = set((k[0][0], k[1][0]) for k in tup)
    rep.check(want <= have and ("CloseChannelEndResult::Ok()", "const:false") in have and ("CloseChannelEndResult::Ok()", "const:true") in have and len(have) == 4, "C05-R1", cc.def_, "claimed-flag",
              "check_close must report claimed=true exactly for Claimed ends", detail={"tuples": sorted(have)})
    # end selection: Sender -> self.sender, Receiver -> self.receiver
    sel = {}
    # the selection may live in check_close itself or in a private selector helper it calls (`self.end_state(end)`)
    where = [cc] + [prog.body(c.resolved or c.callee) for c in cc.calls if mir.selector_of(prog, c)]
    for wb in where:
        endp = [wb.local_name(l) for l in range(1, wb.argc + 1) if wb.locals[l]["ty"].endswith("ChannelEnd")]
        for i in sorted(wb.live_blocks()):
            for st in wb.blocks[i]["s"]:
                if st["r"]["k"] == "ref" and len(st["r"]["p"]) >= 3 and st["r"]["p"][0] == 1 and st["r"]["p"][-1] in (".sender", ".receiver"):
                    for g in wb.guard_strings(i):
                        m = re.match(r"^(Sender|Receiver)=discr\((\w+)\)$", g)
                        if m and m.group(2) in endp:
                            sel[m.group(1)] = st["r"]["p"][-1]
    rep.check(sel == {"Sender": ".sender", "Receiver": ".receiver"}, "C05-R1", cc.def_, "end-selection", "check_close must inspect the end the request names; mapping %s" % sel, detail={"mapping": sel})

    for (fn, own, other) in [("claim_sender", "sender", "receiver"), ("claim_receiver", "receiver", "sender")]:
        b = B(fn)
        expect_row(rep, "C05-R1", b, r"ClaimChannelEndResult::AlreadyClaimed", [r"^Claimed=discr\(self\.%s\)$" % own])
        expect_row(rep, "C05-R1", b, r"ClaimChannelEndResult::InvalidChannel", [r"^Closed=discr\(self\.%s\)$" % own])
        expect_row(rep, "C05-R1", b, r"^Result::Ok$", [r"^Unclaimed=discr\(self\.%s\)$" % own, r"^Claimed=discr\(self\.%s\)$" % other])
        # the claimed end records the requester
        asg = []
        for i in sorted(b.live_blocks()):
            for st in b.blocks[i]["s"]:
                if st["d"][0] == 1 and st["d"][-1] == "." + own:
                    asg.append((i, st))
        ok = len(asg) == 1 and bool(broker.has_guard(b, asg[0][0], r"^Unclaimed=discr\(self\.%s\)$" % own))
        if ok:
            f = broker.aggregate_fields(b, asg[0][1]["r"]["o"][0]) if asg[0][1]["r"]["k"] == "use" else {}
            ok = any_match(f.get("owner", []), r"^conn_id$")
        rep.check(ok, "C05-R1", b.def_, "records-claimant", "%s must mark the end Claimed by the requester on the Unclaimed edge only" % fn, detail={"assignments": len(asg)})
    cl = B("close")
    rp = [c for c in cl.calls if mir.short_fn(c.callee) == "mem::replace"]
    ok = len(rp) == 1 and any_match(cl.describe(rp[0].args[1]), r"ChannelEndState::Closed") and all(cl.dominates(rp[0].bb, e) for e in cl.exits())
    rep.check(ok, "C05-R1", cl.def_, "always-closed", "close() must unconditionally mark the named end Closed", detail={"replace_sites": len(rp)})
    expect_row(rep, "C05-R1", cl, r"^Option::None$", [r"^Claimed=discr\(mem::replace\(", r"^(Unclaimed|Closed)=discr\(self\.(receiver|sender)\)$"], inst="row:no-peer")
    somes = [r for r in rows(cl) if r[0] == "Option::Some"]
    ok = len(somes) == 1 and all_match(cl.describe(somes[0][3]["r"]["o"][0]), r"^self\.(receiver|sender)\.owner$")
    rep.check(ok, "C05-R1", cl.def_, "row:peer", "close() must name the other end's owner when that end is Claimed", detail={"sites": len(somes)})

    # ---- R2 credit check ---------------------------------------------------------------------------
    si = B("send_item")
    expect_row(rep, "C05-R2", si, r"SendItemError::CapacityExhausted", [r"^True=Eq\(self\.sender\.capacity, const:0_u32\)$", r"^Claimed=discr\(self\.receiver\)$", r"^False=PartialEq::ne\(self\.sender\.owner, conn_id\)$"])
    expect_row(rep, "C05-R2", si, r"SendItemError::ReceiverUnclaimed", [r"^Unclaimed=discr\(self\.receiver\)$"])
    expect_row(rep, "C05-R2", si, r"SendItemError::ReceiverClosed", [r"^Closed=discr\(self\.receiver\)$"])
    inv = [r for r in rows(si) if r[0] == "SendItemError::InvalidSender"]
    rep.check(len(inv) == 2 and any(any(re.search(r"^True=PartialEq::ne\(self\.sender\.owner, conn_id\)$", x) for x in r[2]) for r in inv) and any(any(re.search(r"^(Unclaimed|Closed)=discr\(self\.sender\)$", x) for x in r[2]) for r in inv),
              "C05-R2", si.def_, "row:InvalidSender", "InvalidSender exactly when the sender end is not Claimed or is claimed by someone else", detail={"sites": len(inv)})
    expect_row(rep, "C05-R2", si, r"^Result::Ok$", [r"^Claimed=discr\(self\.sender\)$", r"^False=PartialEq::ne\(self\.sender\.owner, conn_id\)$", r"^Claimed=discr\(self\.receiver\)$", r"^False=Eq\(self\.sender\.capacity, const:0_u32\)$"], inst="row:forward")
    # both counters decremented by one on the way to Ok
    okb = [r[1] for r in rows(si) if r[0] == "Result::Ok"]
    decs = {}

    def binding(l, depth=6):
        """field of self a `&mut` local is bound to (stores through the reference are not rebindings)"""
        out = set()
        for ent in si.defs().get(l, []):
            if ent[0] == "stmt" and len(ent[3]["d"]) == 1:
                r = ent[3]["r"]
                if r["k"] == "ref":
                    out.add(".".join(e[1:] for e in r["p"][1:] if e.startswith(".")))
                elif r["k"] == "use" and depth > 0:
                    q = mir.op_place(r["o"][0])
                    if q is not None:
                        if len(q) == 1:
                            out |= binding(q[0], depth - 1)
                        elif len(q) == 2 and q[1].startswith(".") and q[1][1:].isdigit():
                            # element of a tuple built from bindings
                            for e2 in si.defs().get(q[0], []):
                                if e2[0] == "stmt" and e2[3]["r"]["k"] == "agg" and e2[3]["r"].get("ak") == "tuple":
                                    o = e2[3]["r"]["o"][int(q[1][1:])]
                                    qq = mir.op_place(o)
                                    if qq is not None and len(qq) == 1:
                                        out |= binding(qq[0], depth - 1)
        return out
    for i in sorted(si.live_blocks()):
        for st in si.blocks[i]["s"]:
            r = st["r"]
            if r["k"] == "bin" and r["op"] in ("SubWithOverflow", "Sub"):
                k = mir.op_const(r["o"][1])
                pl = mir.op_place(r["o"][0])
                if k is not None and k.get("repr") in ("1_u32", "const 1_u32") and pl is not None and pl[1:] == ["*"]:
                    for bd in binding(pl[0]):
                        m = re.match(r"^(sender|receiver)\.capacity$", bd)
                        if m:
                            decs.setdefault(m.group(1), []).append(i)
    ok = set(decs) == {"sender", "receiver"} and all(len(v) == 1 for v in decs.values()) and bool(okb) and all(si.dominates(v[0], o) for v in decs.values() for o in okb)
    rep.check(ok, "C05-R2", si.def_, "both-credits-decremented", "the forwarding path must decrement the sender's and the receiver's credit by one each", detail={"decrements": decs})
    # the decrement result is stored back
    stores = set()
    for i in sorted(si.live_blocks()):
        for st in si.blocks[i]["s"]:
            if st["d"][-1:] == ["*"] or (len(st["d"]) > 1 and st["d"][1] == "*"):
                nm = si.local_name(st["d"][0])
                if nm in ("sender_capacity", "receiver_capacity"):
                    stores.add(nm)
    rep.check(stores == {"sender_capacity", "receiver_capacity"}, "C05-R2", si.def_, "credits-stored", "both decremented credits must be written back", detail={"stores": sorted(stores)})
    # broker side
    h = M["send_item"]
    ir = [s for s in broker.sends(h) if s.msg_type == "ItemReceived"]
    ok = len(ir) == 1 and bool(broker.has_guard(h, ir[0].bb, r"^Ok=discr\(Channel::send_item\(self\.channels\[req\.cookie\]\.0, id\)\)$")) and all_match(ir[0].target, r"^self\.conns\[Channel::send_item\(self\.channels\[req\.cookie\]\.0, id\)\.0\.0\]") \
        and all_match(ir[0].fields.get("value", []), r"^req\.value$") and all_match(ir[0].fields.get("cookie", []), r"^req\.cookie$")
    rep.check(ok, "C05-R2", h.def_, "forward-on-ok", "ItemReceived must be forwarded unchanged to the receiver named by Channel::send_item, only on its Ok edge", detail={"sites": len(ir)})
    # ... and it IS forwarded: from the Ok edge no path leaves the handler without the send (unless the receiver's connection is gone)
    okr = len(ir) == 1
    if okr:
        oke = h.edges_matching([r"^Ok=discr\(Channel::send_item\(self\.channels\[req\.cookie\]\.0, id\)\)$"])
        gone = h.edges_matching([r"^None=discr\(self\.conns\[Channel::send_item\(.*\)\.0\.0\]\)$"])
        okr = len(oke) == 1 and not any(set(h.exits()) & h.reachable(v, without_nodes={ir[0].bb}, without_edges=gone) for (_u, v) in oke)
    rep.check(okr, "C05-R2", h.def_, "item-always-forwarded", "an item accepted by Channel::send_item (credit already consumed) must be forwarded to the receiver on every path, unless the receiver's connection is gone", detail={})
    rce = [c for c in h.calls if c.name == "remove_channel_end"]
    by_err = {}
    for c in rce:
        g = h.guard_strings(c.bb)
        end = sorted(h.describe(c.args[3]))
        for x in g:
            m = re.match(r"^(\w+)=discr\(Channel::send_item\(.*\)\.0\)$", x)
            if m and m.group(1) in ("CapacityExhausted", "ReceiverUnclaimed", "InvalidSender", "ReceiverClosed"):
                by_err.setdefault(m.group(1), []).append((c.bb, end, sorted(h.describe(c.args[4]))))
    ce = by_err.get("CapacityExhausted", [])
    rep.check(len(ce) == 1 and ce[0][1] == ["ChannelEnd::Sender()"], "C05-R2", h.def_, "exhausted-closes-sender-only", "a sender exceeding its credit loses only its own end; effects: %s" % ce, detail={"effects": ce})
    ru = sorted(by_err.get("ReceiverUnclaimed", []))
    rep.check(len(ru) == 2 and ru[0][1] == ["ChannelEnd::Receiver()"] and ru[1][1] == ["ChannelEnd::Sender()"] and h.reaches(ru[0][0], ru[1][0]), "C05-R2", h.def_, "unclaimed-receiver-order",
              "sending into an unclaimed receiver closes the receiver first, then the sender", detail={"effects": ru})
    rep.check("InvalidSender" not in by_err and "ReceiverClosed" not in by_err, "C05-R2", h.def_, "no-effect-for-strangers", "InvalidSender / ReceiverClosed must have no effect on the channel", detail={"effects": {k: v for k, v in by_err.items()}})

    # ---- R3 overflow -----------------------------------------------------------------------------------
    ac = B("add_capacity")
    ca = [c for c in ac.calls if c.name == "checked_add"]
    rep.check(len(ca) == 1 and any_match(ac.describe(ca[0].args[0]), r"^self\.receiver\.capacity$") and all_match(ac.describe(ca[0].args[1]), r"^capacity$"), "C05-R3", ac.def_, "checked-add", "the receiver's credit must be raised with checked_add", detail={"sites": len(ca)})
    expect_row(rep, "C05-R3", ac, r"AddCapacityError::AddCapacityError", [r"^None=discr\(num::checked_add\(", r"^False=PartialEq::ne\(self\.receiver\.owner, conn_id\)$", r"^Claimed=discr\(self\.receiver\)$"])
    hb = M["add_channel_capacity"]
    rce = [c for c in hb.calls if c.name == "remove_channel_end"]
    ok = len(rce) == 1 and bool(broker.has_guard(hb, rce[0].bb, r"^Err=discr\(Channel::add_capacity\(")) and sorted(hb.describe(rce[0].args[3])) == ["ChannelEnd::Receiver()"] and all_match(hb.describe(rce[0].args[4]), r"^Option::Some\(id\)$|^id$")
    rep.check(ok, "C05-R3", hb.def_, "overflow-closes-receiver-only", "a capacity grant that overflows closes only the receiver end of the granting connection", detail={"sites": len(rce)})
    fwd = [s for s in broker.sends(hb) if s.msg_type == "AddChannelCapacity"]
    ok = len(fwd) == 1 and bool(broker.has_guard(hb, fwd[0].bb, r"^Ok=discr\(Channel::add_capacity\(")) and bool(broker.has_guard(hb, fwd[0].bb, r"^Some=discr\(Channel::add_capacity\(.*\)\.0\)$")) \
        and all_match(fwd[0].fields.get("capacity", []), r"^Channel::add_capacity\(.*\)\.0\.0\.1$") and all_match(fwd[0].target, r"^self\.conns\[Channel::add_capacity\(.*\)\.0\.0\.0\]")
    okr = len(fwd) == 1
    if okr:
        se = hb.edges_matching([r"^Some=discr\(Channel::add_capacity\(.*\)\.0\)$"])
        gone = hb.edges_matching([r"^None=discr\(self\.conns\[Channel::add_capacity\(.*\)\.0\.0\.0\]\)$"])
        okr = len(se) == 1 and not any(set(hb.exits()) & hb.reachable(v, without_nodes={fwd[0].bb}, without_edges=gone) for (_u, v) in se)
    rep.check(okr, "C05-R3", hb.def_, "grant-always-forwarded", "credit that Channel::add_capacity decided to pass on must reach the sender on every path, unless the sender's connection is gone (otherwise the sender starves with credit granted)", detail={})
    rep.check(ok, "C05-R3", hb.def_, "grant-forwarded-as-computed", "the credit announced to the sender must be the amount and the connection computed by Channel::add_capacity", detail={"sites": len(fwd)})

    if not rep.matrix:
        r5_client_credit(rep)
    r6_announced_is_credited(rep, prog)

    # ---- R4 notifications / removal -----------------------------------------------------------------------
    re_ = M["remove_channel_end"]
    cs = [s for s in broker.sends(re_) if s.msg_type == "ChannelEndClosed"]
    ok = len(cs) == 1 and bool(broker.has_guard(re_, cs[0].bb, r"^Some=discr\(Channel::close\(")) and all_match(cs[0].target, r"^self\.conns\[Channel::close\(.*\)\.0\]") \
        and all_match(cs[0].fields.get("cookie", []), r"^cookie$") and all_match(cs[0].fields.get("end", []), r"^end$")
    rep.check(ok, "C05-R4", re_.def_, "peer-closed-notification", "ChannelEndClosed must go to the peer named by Channel::close, exactly on its Some edge", detail={"sites": len(cs)})
    rmv = [c for c in re_.calls if c.name == "remove" and any_match(re_.describe(c.args[0]), r"^self\.channels\.entry\(cookie\)")]
    rep.check(len(rmv) == 1 and bool(broker.has_guard(re_, rmv[0].bb, r"^True=")), "C05-R4", re_.def_, "remove-on-remove-edge", "the channel must be removed exactly on the `remove` edge", detail={"sites": len(rmv)})
    # owner-side set: the matching end
    for (end, fn) in [("Sender", "remove_sender"), ("Receiver", "remove_receiver")]:
        cs_ = [c for c in re_.calls if c.name == fn]
        rep.check(len(cs_) == 1 and bool(broker.has_guard(re_, cs_[0].bb, r"^%s=discr\(end\)$" % end)), "C05-R4", re_.def_, "owner-set:%s" % end, "closing the %s end must update the owner's %s set" % (end, end.lower()), detail={})
    cl_ = M["claim_channel_end"]
    cn = [s for s in broker.sends(cl_) if s.msg_type == "ChannelEndClaimed"]
    ok = len(cn) == 1 and bool(broker.has_guard(cl_, cn[0].bb, r"^Ok=discr\(")) and all_match(cn[0].fields.get("cookie", []), r"^req\.cookie$") and all_match(cn[0].fields.get("end", []), r"^req\.end$")
    rep.check(ok, "C05-R4", cl_.def_, "peer-claimed-notification", "ChannelEndClaimed must be sent exactly on the Ok edge of the claim", detail={"sites": len(cn)})
    # close handler: effect only when the check said Ok, owner only when claimed
    ch = M["close_channel_end"]
    rce = [c for c in ch.calls if c.name == "remove_channel_end"]
    ok = len(rce) == 1 and bool(broker.has_guard(ch, rce[0].bb, r"^True=PartialEq::eq\(Channel::check_close\(.*\)\.0, CloseChannelEndResult::Ok\(\)\)$")) \
        and bool(broker.has_guard(ch, rce[0].bb, r"^Continue=discr\(ConnectionState::send\(self\.conns\[id\]"))
    rep.check(ok, "C05-R4", ch.def_, "close-effect-only-when-ok", "a close request has an effect only when check_close answered Ok, after the reply was sent", detail={"sites": len(rce), "guards": ch.guard_strings(rce[0].bb) if rce else None})


def r5_client_credit(rep):
    """client side of the credit protocol (aldrin/src/low_level/channel/established.rs): whoever takes a grant out of the
    sender's capacity_added queue credits it to self.capacity before polling again — a grant that is read and dropped is
    credit the broker believes the sender has, and the sender stalls although it never exceeded its capacity"""
    cprog = mir.Program(engine.ensure_facts(engine.config_for("C05")), crates=["aldrin"])
    n = 0
    for d, b in sorted(cprog.bodies.items()):
        if "channel::established::Sender" not in d:
            continue
        pn = [c for c in b.calls if c.name == "poll_next" and any(x.endswith("self.capacity_added") for x in b.describe(c.args[0]))]
        if not pn:
            continue
        got = b.edges_matching([r"^Some=discr\(Stream::poll_next\((upvar:)?self\.capacity_added, cx\)\.0\)$"])
        stores = set()
        for i in sorted(b.live_blocks()):
            for st in b.blocks[i]["s"]:
                if st["d"][-1:] == [".capacity"] and st["r"]["k"] == "use" and any(re.match(r"^AddWithOverflow\((upvar:)?self\.capacity, Stream::poll_next\((upvar:)?self\.capacity_added, cx\)\.0\.0\)", x) for x in b.describe(st["r"]["o"][0])):
                    stores.add(i)
        for (u, v) in sorted(got):
            n += 1
            r_ = b.reachable(v, without_nodes=stores)
            ok = bool(stores) and not (set(c.bb for c in pn) & r_) and not (set(b.exits()) & r_)
            rep.check(ok, "C05-R5", d, "grant-credited", "a capacity grant taken out of the queue must be added to self.capacity before the queue is polled again or the function returns; a dropped grant makes a compliant sender stall for ever", line=b.span, detail={"stores": len(stores)})
    rep.floor("C05-R5", "sites that take grants out of the sender's queue", n, 2)


def field_of_binding(b, local, depth=6):
    """'sender.capacity' / 'receiver.capacity' for a pattern binding (`capacity: ref mut x`) of self's channel ends"""
    out = set()
    if depth <= 0:
        return out
    for ent in b.defs().get(local, []):
        if ent[0] != "stmt" or len(ent[3]["d"]) != 1:
            continue   # stores THROUGH the reference are not definitions of the binding
        r = ent[3]["r"]
        if r["k"] in ("ref", "rawptr"):
            p = r["p"]
            names = [e[1:] for e in p[1:] if isinstance(e, str) and e.startswith(".")]
            if p[0] == 1 and len(names) >= 2:
                out.add("%s.%s" % (names[0], names[-1]))
            elif p[0] != 1:
                out |= field_of_binding(b, p[0], depth - 1)
        elif r["k"] in ("use", "cast") and mir.op_place(r["o"][0]) is not None:
            q = mir.op_place(r["o"][0])
            if len(q) >= 2 and isinstance(q[1], str) and q[1].startswith(".") and q[1][1:].isdigit():
                # field of a tuple built from the bindings: (receiver, receiver_capacity)
                for e2 in b.defs().get(q[0], []):
                    if e2[0] == "stmt" and e2[3]["r"]["k"] == "agg" and e2[3]["r"].get("ak") == "tuple":
                        o = e2[3]["r"]["o"][int(q[1][1:])]
                        qq = mir.op_place(o)
                        if qq is not None:
                            out |= field_of_binding(b, qq[0], depth - 1)
            else:
                out |= field_of_binding(b, q[0], depth - 1)
    return out


def r6_announced_is_credited(rep, prog):
    """whenever the broker announces held-back credit to the sender (the difference receiver credit - sender credit), it
    records it: the sender's credit is set to the receiver's on that path; otherwise the same credit is announced again and
    again while the broker's own count of the sender's credit runs out"""
    n = 0
    for fn in ("send_item", "add_capacity"):
        b = prog.one("^" + re.escape(CH + fn) + "$")
        diffs = []
        for bb_ in [b] + prog.closures_of(b.def_):
            for i in sorted(bb_.live_blocks()):
                for st in bb_.blocks[i]["s"]:
                    r = st["r"]
                    if r["k"] == "bin" and r["op"].startswith("Sub") and all(mir.op_place(o) is not None for o in r["o"]):
                        f0 = field_of_binding(bb_, mir.op_place(r["o"][0])[0]) if bb_ is b else {"?closure"}
                        f1 = field_of_binding(bb_, mir.op_place(r["o"][1])[0]) if bb_ is b else {"?closure"}
                        if (f0 == {"receiver.capacity"} and f1 == {"sender.capacity"}) or bb_ is not b:
                            diffs.append((bb_, i))
        stores = []
        for i in sorted(b.live_blocks()):
            for st in b.blocks[i]["s"]:
                if st["d"][-1:] == ["*"] and st["r"]["k"] == "use" and mir.op_place(st["r"]["o"][0]) is not None:
                    if field_of_binding(b, st["d"][0]) == {"sender.capacity"} and field_of_binding(b, mir.op_place(st["r"]["o"][0])[0]) == {"receiver.capacity"}:
                        stores.append(i)
        main = [i for (bb_, i) in diffs if bb_ is b]
        inclosure = [1 for (bb_, i) in diffs if bb_ is not b]
        n += len(main)
        ok = bool(stores) and not inclosure and bool(main) and all(not (set(b.exits()) & b.reachable(d_, without_nodes=set(stores))) for d_ in main)
        rep.check(ok, "C05-R6", b.def_, "announced-credit-is-recorded", "%s computes the credit to announce (receiver credit - sender credit) but does not set the sender's credit to the receiver's on every such path: the grant would be announced again on the next item while the broker's count of the sender's credit runs out" % fn,
                  line=b.span, detail={"diff_sites": len(main), "in_closures": len(inclosure), "equalising_stores": len(stores)})
    rep.floor("C05-R6", "announce computations", n, 2)
