"""C16 — generated Rust types are wire-compatible with their schema (corpus level)."""
import re

import engine
import mir
import pairs

EXPLANATION = (
    "CORPUS-LEVEL claim: static sibling agreement of every macro expansion (derive(Serialize, Deserialize, Introspectable) and generate!) that the "
    "workspace build compiles — examples, codegen's and macros' test schemas (all_types, options, enum_fallback, old_new, generic_struct, newtype, …) "
    "— analysed as ordinary rustc MIR. Decided per generated type T: the three writers (for T, &T, TRef) and the reader agree on the encoding kind "
    "(struct / enum / newtype), on the set of field / variant ids, per id on the tag type and on the Rust field / variant it maps to; a field whose "
    "absence the reader rejects (required) is written unconditionally; unknown ids are skipped (no fallback) or captured and replayed through the same "
    "field (fallback: add_to_unknown_fields ↔ serialize_struct2_with_unknown_fields, into_unknown_variant ↔ serialize_unknown_variant); unknown variants "
    "without fallback are an error; where Introspectable is derived too, its field / variant ids equal those of the codec; (R3) the runtime half of the fallback clause in aldrin_core — add_to_unknown_fields / "
    "into_unknown_variant store every unknown field / variant under its id on every non-error path, serialize_unknown_fields (both encodings) / "
    "serialize_unknown_variant write id and value of every captured one; (R4) the four default-id counters of the derive generators (the proc-macro crate "
    "is analysed as a program here) all advance as `previous item's id() + 1`. A defect in the generator "
    "shows up in every expansion that uses the feature. NOT decided: 'for every valid schema' (the generator as a function), that generated code compiles "
    "(that is the build)."
)

CORPUS = ["aldrin_codegen", "aldrin_macros", "aldrin_core", "example_bookmarks", "example_echo", "example_downloader", "example_media_player", "example_introspect", "aldrin", "aldrin_test"]


def check_pair(rep, prog, key, ent, rule="C16-R1"):
    rb = ent["de"]
    r = pairs.Reader(prog, rb)
    ws = [pairs.Writer(prog, wb) for wb in ent["ser"]]
    real = [w for w in ws if w.kind in ("struct", "enum", "newtype")]
    if not real or r.kind not in ("struct", "enum", "newtype"):
        return 0
    n = 0
    short = key.split("::")[-1]
    # writers agree among themselves and with the reader on the encoding kind
    kinds = set(w.kind for w in real) | {r.kind}
    rep.check(len(kinds) == 1, rule, rb.def_, "encoding-kind", "%s: writers use %s, the reader %s" % (short, sorted(w.kind for w in real), r.kind), line=rb.span, detail={})
    n += 1
    if r.kind == "struct":
        rvars = set(r.var_field)
        rfields = {}
        for fid, lst in r.fields.items():
            if fid == "otherwise":
                continue
            for (tag, var) in lst:
                cands = [v for v in var.split("|") if v in rvars]
                fld, req = r.var_field[cands[0]] if len(cands) == 1 else ("?", False)
                rfields[fid] = (tag, fld, req)
        for w in real:
            wf = {}
            for fid, lst in w.fields.items():
                wf[fid] = lst
            n += 1
            rep.check(set(wf) == set(rfields), rule, w.body.def_, "field-ids", "%s: the writer emits field ids %s, the reader knows %s" % (short, sorted(wf), sorted(rfields)), line=w.body.span,
                      detail={"writer": sorted(wf), "reader": sorted(rfields)})
            for fid in sorted(set(wf) & set(rfields)):
                tag, fld, req = rfields[fid]
                for (wtag, meth, wfld) in wf[fid]:
                    n += 1
                    ok = (wtag == tag) and (wfld == fld or fld == "?")
                    rep.check(ok, rule, w.body.def_, "field:%s" % fid, "%s: id %s is written as %s from `%s` but read as %s into `%s`" % (short, fid, wtag, wfld, tag, fld), line=w.body.span,
                              detail={"id": fid, "writer": [wtag, meth, wfld], "reader": [tag, fld, req]})
                    if req:
                        n += 1
                        rep.check(meth == "serialize", rule, w.body.def_, "required-written:%s" % fid, "%s: field id %s is required by the reader but written with %s (may be omitted)" % (short, fid, meth), line=w.body.span, detail={})
            # fallback capture / replay
            n += 1
            if r.default == "add_to_unknown_fields":
                fb = [f for v, (f, _q) in r.var_field.items() if v == "_fallback"]
                ok = w.fallback is not None and (not fb or w.fallback == fb[0])
                rep.check(ok, rule, w.body.def_, "fallback-replayed", "%s: the reader captures unknown fields into `%s` but this writer replays %s" % (short, fb[0] if fb else "?", w.fallback), line=w.body.span, detail={})
            else:
                rep.check(w.fallback is None and r.default == "skip", rule, w.body.def_, "unknown-fields-skipped", "%s: without fallback unknown field ids must be skipped by the reader (default arm: %s) and nothing replayed (writer: %s)" % (short, r.default, w.fallback),
                          line=w.body.span, detail={})
        # every field of the struct is fed
        adt = prog.adt(rb.self_adt or "")
        if adt is not None and adt["kind"] == "Struct":
            names = [f["name"] for f in adt["variants"][0]["fields"]]
            fed = set(f for (f, _q) in r.var_field.values())
            n += 1
            rep.check(set(names) <= fed | {"_phantom"}, rule, rb.def_, "all-fields-fed", "%s: fields %s are not produced by the reader" % (short, sorted(set(names) - fed)), line=rb.span, detail={})
    elif r.kind == "enum":
        rv = {}
        for vid, lst in r.variants.items():
            if vid == "otherwise":
                continue
            for (tag, var) in lst:
                rv[vid] = (tag, var)
        for w in real:
            wv = {}
            for var, lst in w.variants.items():
                for (vid, tag) in lst:
                    wv[vid] = (tag, var)
            n += 1
            rep.check(set(wv) == set(rv), rule, w.body.def_, "variant-ids", "%s: the writer emits variant ids %s, the reader knows %s" % (short, sorted(wv), sorted(rv)), line=w.body.span, detail={})
            for vid in sorted(set(wv) & set(rv)):
                n += 1
                rep.check(wv[vid] == rv[vid], rule, w.body.def_, "variant:%s" % vid, "%s: id %s is written as %s for variant %s but read as %s into variant %s" % (short, vid, wv[vid][0], wv[vid][1], rv[vid][0], rv[vid][1]), line=w.body.span,
                          detail={"writer": wv[vid], "reader": rv[vid]})
            n += 1
            if r.default == "into_unknown_variant":
                rep.check(w.fallback is not None, rule, w.body.def_, "fallback-replayed", "%s: the reader captures unknown variants but this writer has no unknown-variant arm" % short, line=w.body.span, detail={})
            else:
                rep.check(w.fallback is None and r.default == "err", rule, w.body.def_, "unknown-variant-rejected", "%s: without fallback an unknown variant must be rejected (reader default: %s)" % (short, r.default), line=w.body.span, detail={})
    elif r.kind == "newtype":
        for w in real:
            n += 1
            rep.check(getattr(w, "newtype", (None,))[0] == getattr(r, "newtype", None), rule, w.body.def_, "newtype-tag", "%s: newtype written as %s but read as %s" % (short, getattr(w, "newtype", None), getattr(r, "newtype", None)), line=w.body.span, detail={})
    return n


def run(rep):
    rep.explanation = EXPLANATION
    rep.trusted = ["rustc nightly macro expansion, type checking and MIR construction"]
    rep.assumptions = ["the corpus is what the workspace build compiles (all targets, all features)"]
    fdir = engine.ensure_facts("ws")
    prog = mir.Program(fdir, crates=CORPUS, include_tests=True)
    C = pairs.collect(prog)
    n_types = 0
    n_ob = 0
    for key, ent in sorted(C.items()):
        if not ent["de"] or not ent["ser"]:
            continue
        if not ent["exp"]:
            continue  # hand-written records are C20-R4
        n = check_pair(rep, prog, key, ent)
        if n:
            n_types += 1
            n_ob += n
    rep.floor("C16-R1", "generated types in the corpus", n_types, 50)
    # ---- R2 introspection agreement -----------------------------------------------------------------
    n_intro = 0
    for d, b in sorted(prog.bodies.items()):
        if pairs.trait_kind(b) != "intro" or b.name != "layout" or not b.exp:
            continue
        key = re.sub(r"'\w+ ?", "", b.impl_self or "")
        ent = C.get(key)
        if not ent or not ent["de"]:
            continue
        r = pairs.Reader(prog, ent["de"])
        ids = set()
        for c in b.calls:
            if mir.short_fn(c.callee) in ("FieldIr::builder", "VariantIr::builder", "FieldIr::new", "VariantIr::new") or (c.name == "builder" and re.search(r"(Field|Variant)Ir", c.callee or "")):
                for ds in b.describe(c.args[0]):
                    m = re.match(r"^const:(\d+)_u32$", ds)
                    if m:
                        ids.add(m.group(1))
        if not ids:
            continue
        n_intro += 1
        codec_ids = set(k for k in (r.fields if r.kind == "struct" else r.variants) if k != "otherwise")
        rep.check(ids == codec_ids, "C16-R2", b.def_, "introspection-ids", "%s: the introspection layout lists ids %s, the codec uses %s" % (key.split("::")[-1], sorted(ids), sorted(codec_ids)), line=b.span, detail={"layout": sorted(ids), "codec": sorted(codec_ids)})
    rep.floor("C16-R2", "generated types with introspection", n_intro, 20)
    rep.analysed["corpus_types"] = n_types
    r3(rep, prog)
    r4(rep, prog)


def err_edges(b):
    out = set()
    for u in b.live_blocks():
        if b.blocks[u]["t"]["k"] != "switch":
            continue
        g = b.switch_guard(u)
        if g and g.get("kind") == "variant" and (g.get("adt") or "").endswith("ControlFlow"):
            for v in b.succ(u):
                if "Break" in (b.edge_label(u, v) or []):
                    out.add((u, v))
    return out


def r3(rep, prog):
    """the runtime half of the fallback clause: what generated code calls to capture and to replay unknown fields /
    variants must store / write every one of them (must-pass-through on every non-error path)"""
    C = "aldrin_core::"
    # (a) capture of an unknown field
    b = prog.one("^" + re.escape(C) + r"deserializer::struct_::FieldDeserializer::<'a, 'b>::add_to_unknown_fields$")
    ins = [c for c in b.calls if c.name == "insert" and any("self.unknown_fields" in d for d in b.describe(c.args[0]))]
    ok = len(ins) == 1
    if ok:
        c = ins[0]
        ok = b.describe(c.args[1]) == {"self.id"} and all(re.match(r"^Deserializer::deserialize\(Deserializer::new\(self\.buf, self\.depth\)\)", d) for d in b.describe(c.args[2])) \
            and not (set(b.exits()) & b.reachable(0, without_nodes={c.bb}, without_edges=err_edges(b)))
    rep.check(ok, "C16-R3", b.def_, "captures-every-unknown-field", "add_to_unknown_fields must store the decoded value under the field's id on every non-error path (an unknown field that is dropped here does not survive a decode/encode cycle)",
              line=b.span, detail={"insert_sites": len(ins)})
    # (b) capture of an unknown variant
    b = prog.one("^" + re.escape(C) + r"deserializer::enum_::EnumDeserializer::<'a, 'b>::into_unknown_variant$")
    nw = [c for c in b.calls if mir.short_fn(c.callee) == "UnknownVariant::new"]
    ok = len(nw) == 1
    if ok:
        c = nw[0]
        ok = b.describe(c.args[0]) == {"self.id"} and all(re.match(r"^EnumDeserializer::deserialize\(self\)", d) for d in b.describe(c.args[1])) \
            and not (set(b.exits()) & b.reachable(0, without_nodes={c.bb}, without_edges=err_edges(b)))
    rep.check(ok, "C16-R3", b.def_, "captures-unknown-variant", "into_unknown_variant must keep the variant's id and its decoded value", line=b.span, detail={"sites": len(nw)})
    # (c) replay of unknown fields
    n = 0
    for d, b in sorted(prog.bodies.items()):
        if not re.match("^" + re.escape(C) + r"serializer::struct_::Struct[12]Serializer::<'a>::serialize_unknown_fields$", d):
            continue
        n += 1
        nx = [c for c in b.calls if c.name == "next" and any("AsUnknownFields::fields(unknown_fields)" in x for x in b.describe(c.args[0]))]
        ITEM = r"^Iterator::next\(AsUnknownFields::fields\(unknown_fields\)\)\.0\.%d$"
        idw = [c for c in b.calls if c.name in ("put_varint_u32_le", "serialize") and any(any(re.match(ITEM % 0, x) for x in b.describe(a)) for a in c.args)]
        vw = [c for c in b.calls if c.name == "serialize" and any(any(re.match(ITEM % 1, x) for x in b.describe(a)) for a in c.args)]
        ok = len(nx) == 1 and bool(idw) and bool(vw)
        if ok:
            sw = [u for u in b.live_blocks() if b.blocks[u]["t"]["k"] == "switch" and (b.switch_guard(u) or {}).get("kind") == "variant"
                  and any(x == "Iterator::next(AsUnknownFields::fields(unknown_fields))" for x in mir.describe_place(b, b.switch_guard(u)["place"], 8, set()))]
            ok = len(sw) == 1
            if ok:
                sv = [v for v in set(b.succ(sw[0])) if "Some" in (b.edge_label(sw[0], v) or [])]
                ok = len(sv) == 1 and nx[0].bb not in b.reachable(sv[0], without_nodes={idw[0].bb}) and nx[0].bb not in b.reachable(sv[0], without_nodes={vw[0].bb})
        rep.check(ok, "C16-R3", b.def_, "replays-every-unknown-field", "serialize_unknown_fields must write id and value of every captured field (no iteration may skip the write)", line=b.span, detail={"id_writes": len(idw), "value_writes": len(vw)})
    rep.floor("C16-R3", "serialize_unknown_fields implementations", n, 2)
    # (d) replay of an unknown variant
    b = prog.one("^" + re.escape(C) + r"serializer::Serializer::<'a>::serialize_unknown_variant$")
    se = [c for c in b.calls if c.name == "serialize_enum"]
    ok = len(se) == 1 and b.describe(se[0].args[1]) == {"AsUnknownVariant::id(variant)"} and b.describe(se[0].args[2]) == {"AsUnknownVariant::value(variant)"} \
        and not (set(b.exits()) & b.reachable(0, without_nodes={se[0].bb}))
    rep.check(ok, "C16-R3", b.def_, "replays-unknown-variant", "serialize_unknown_variant must write the captured id and value as an enum", line=b.span, detail={})


def r4(rep, prog, rule="C16-R4"):
    """the derive generators agree on default ids: Serialize / Deserialize (enum_data.rs, struct_data.rs) and Introspectable
    (introspectable.rs) each number an item without explicit id as `previous item's id + 1`; a generator that counts positions
    instead gives a type whose introspection (and type id) disagrees with its wire format"""
    n = 0
    for d, b in sorted(prog.bodies.items()):
        if not d.startswith("aldrin_macros::derive::") or "::test" in d:
            continue
        cands = set()
        for c in b.calls:
            if c.name == "new" and re.search(r"(ItemOptions|VariantData|FieldData)", c.callee or ""):
                for a in c.args[1:]:
                    l = b.base_through(a)
                    if l is not None and l > b.argc and b.locals[l].get("user") and b.locals[l]["ty"] == "u32":
                        cands.add(l)
        for l in sorted(cands):
            defs = b.defs().get(l, [])
            if len(defs) < 2:
                continue
            n += 1
            forms = []
            for ent in defs:
                if ent[0] == "stmt" and ent[3]["r"].get("o"):
                    forms.extend(sorted(b.describe(ent[3]["r"]["o"][0])))
                elif ent[0] == "call":
                    forms.append("call:" + ent[2].name)
            adv = [f for f in forms if not re.match(r"^const:\d+_u32$", f)]
            ok = bool(adv) and all(re.match(r"^AddWithOverflow\(\w+::id\(.*\), const:1_u32\)", f) for f in adv)
            rep.check(ok, rule, d, "default-id-follows-previous:%s" % (b.locals[l].get("name") or l),
                      "the default id of the next item must be `previous item's id() + 1` in every derive generator; here it advances as %s — items after an explicit #[aldrin(id = N)] get different ids in the codec and in the introspection" % adv,
                      line=b.span, detail={"forms": forms})
    rep.floor(rule, "default-id counters in the derive generators", n, 4)
