"""C06 — clients and broker agree on the protocol (narrow structural clauses)."""
import re

import broker
import engine
import proxyq
import mir
import proto
from c02 import all_match, any_match

EXPLANATION = (
    "NARROW claim: static agreement tables extracted from both programs (rustc MIR). Decided: (R1) direction tables — every message kind the broker can "
    "send is dispatched to a handler by the client (never to its 'unexpected message' arm) and every kind the client can send is handled by the broker; "
    "both dispatch matches are exhaustive without wildcard and partition the 63 kinds into handled / rejected / connection-level; (R2) for every reply "
    "enum, each result variant the broker can construct is accepted by the client's handler of that reply, or is listed with the client-side precondition "
    "that excludes it; (R3) fair select: in both select loops next() is one full cycle over all sources, the poll loop runs exactly |sources| rounds, the "
    "flush source is polled only when a flush is pending, and every successful transport send is followed by flush_transport = true (or an explicit flush) "
    "before control returns to the select loop; (R4) version gates agree (shared with C12-R2); (R6) the proxy multiplexer's forwarding decisions in quantifier normal form; (R7) every request is "
    "answered: no accepting path of a broker request handler bypasses the send of its reply unless the requester is gone or gave no serial (QueryIntrospection may "
    "instead be recorded as pending under its serial, to be answered when the queried connection replies); (R8) no state mutation in a client message "
    "handler is control-dependent on whether the local waiter of a reply still exists (delivery of the result through its oneshot channel); (R9) in reply handlers whose message carries a result, assertions about the client's own registries are made "
    "only under the broker's positive answer (sibling agreement; found F4); (R10) the fan-out obligations of C10-R3 / C04-R1 (every entitled party is served), re-evaluated "
    "because a gap there is an awaited notification that never arrives. NOT decided: absence of deadlock or lost wake-ups, "
    "bounded-FIFO behaviour, result consistency under schedules."
)

# result variants the broker can construct that the reference client rejects, with the client-side precondition that excludes them
EXCLUDED = {
    ("DestroyObjectReply", "ForeignObject"): "the client only destroys objects through the Object handle that created them",
    ("CreateServiceReply", "ForeignObject"): "services are only created through the owning Object handle",
    ("DestroyServiceReply", "ForeignObject"): "services are only destroyed through the owning Service handle",
    ("CloseChannelEndReply", "ForeignChannel"): "channel ends are only closed through the handle that owns them",
    ("SubscribeAllEventsReply", "NotSupported"): "Proxy::subscribe_all only asks when can_subscribe_all() (from the broker's own ServiceInfo, which create_service2 downgrades for owners below 1.18) — guard checked by dominance below",
    ("UnsubscribeAllEventsReply", "NotSupported"): "UnsubscribeAllEvents{serial: Some} is sent only for a proxy whose all_events flag is set, and that flag is set only by a successful guarded subscribe_all — writer set checked below",
}


def run(rep):
    rep.explanation = EXPLANATION
    rep.trusted = ["rustc nightly MIR"]
    fdir = engine.ensure_facts(engine.config_for("C06"))
    prog = proto.load(fdir)
    M = broker.methods(prog)
    bd, binfo, bhm = proto.broker_dispatch(prog)
    cd, cinfo, chm = proto.client_dispatch(prog)
    bsends = broker.all_sends(prog)
    csends = proto.client_sends(prog)

    # ---- R6 drop-driven proxy requests match what the client registered --------------------------
    proxyq.check(rep, prog, "C06-R6")

    # ---- R7 every request is answered: no accepting path of a request handler bypasses its reply ----
    n7 = 0
    for kind, hs in sorted((bd or {}).items()):
        for h in hs:
            b = M.get(h)
            if b is None:
                continue
            want = "CreateServiceReply" if kind == "CreateService2" else kind + "Reply"
            if kind.endswith("Reply"):
                continue
            ss = [s_ for s_ in broker.sends(b) if s_.msg_type == want]
            if not ss:
                continue
            n7 += 1
            sinks = set(s_.bb for s_ in ss)
            # deferral: the request is forwarded to the connection that can answer it (QueryIntrospection); the reply
            # is then produced by the handler of that connection's reply; the deferral is the add_pending(id, req.serial) record
            if kind == "QueryIntrospection":
                sinks |= set(c.bb for c in b.calls if c.name == "add_pending" and any(re.search(r"req\.serial", x) for a in c.args for x in b.describe(a)))
            cut = b.edges_matching([r"^None=discr\(self\.conns\[id\]\)$", r"^None=discr\(req\.serial\)$"])
            reach = b.reachable(0, without_nodes=sinks, without_edges=cut)
            bad = [o for o in proto.ok_exit_blocks(b) if o in reach]
            rep.check(not bad, "C06-R7", b.def_, "request-is-answered:%s" % kind, "the handler of %s can return Ok without having sent %s (the requester is present and gave a serial): the client operation awaiting it never completes" % (kind, want),
                      line=b.span, detail={"reply_sites": len(ss), "requester-gone / no-serial edges": len(cut)})
    rep.floor("C06-R7", "request kinds with a reply", n7, 20)

    # ---- R8 the client's mirror of broker-side state follows the broker's answer, not the local waiter ----------
    n8 = 0
    for d, b in sorted(prog.bodies.items()):
        if not d.startswith("aldrin::client::Client::<T>::msg_"):
            continue
        for c in b.calls:
            if c.name in ("insert", "remove") and c.args and any(re.match(r"^(upvar:)?self\.\w+$", x) for x in b.describe(c.args[0])):
                n8 += 1
                gs = [g for g in b.guard_strings(c.bb) if re.search(r"^(True|False|Ok|Err)=.*(oneshot::)?Sender::send\(|^(True|False)=Result::is_(ok|err)\(Sender::send\(|Sender::is_canceled\(", g) and "unbounded_send" not in g]
                fld = sorted(b.describe(c.args[0]))[0]
                rep.check(not gs, "C06-R8", b.root if hasattr(b, "root") else d, "mirror-independent-of-waiter:%s.%s" % (fld.replace("upvar:", ""), c.name),
                          "the client records broker-side state (%s.%s) only if the local future still waits for the reply (%s): when that future was dropped the broker's view and the client's diverge and a later message for that entity stops the client" % (fld, c.name, gs[:1]),
                          line=c.line, detail={"guards": gs})
    rep.floor("C06-R8", "state mutations in client message handlers", n8, 16)

    # ---- R9 assertions about the client's own registries are made only under the broker's positive answer -----
    # Sibling reply handlers assert the presence / absence of a registry entry only after the broker answered positively
    # (`Ok`, `SenderClaimed`, ...): what the client believes about an entity is only confirmed then. A handler that asserts it
    # regardless of the answer panics when a drop-driven request carried a belief the broker never confirmed.
    n9 = 0
    for d, b in sorted(prog.bodies.items()):
        if not re.match(r"^aldrin::client::Client::<T>::msg_\w+_reply(::\{closure#0\})?$", d):
            continue
        if not any(re.search(r"(^|[^\w])msg\.result", x) for c in b.calls for a in c.args for x in b.describe(a)) and \
           not any(re.search(r"msg\.result", g) for i in b.live_blocks() for g in b.guard_strings(i)):
            continue   # the reply has no result to condition on
        for c in b.calls:
            if not re.search(r"core::panicking::", c.callee or ""):
                continue
            gs = b.guard_strings(c.bb)
            reg = [g for g in gs if re.search(r"=Option::is_(some|none)\((upvar:)?self\.\w+\.(remove|insert)\(", g)]
            if not reg:
                continue
            n9 += 1
            pos = [g for g in gs if re.search(r"^(Ok|SenderClaimed|ReceiverClaimed)=discr\((upvar:)?msg\.result\)$|^True=(PartialEq::)?eq\((upvar:)?msg\.result, \w+::Ok\(\)\)$", g)]
            rep.check(bool(pos), "C06-R9", b.def_, "registry-assertion-under-positive-answer:%s" % ".".join(re.search(r"self\.(\w+)\.(\w+)\(", reg[0]).groups()),
                      "this handler asserts something about the client's own registry (%s) whatever the broker answered; its siblings do so only under a positive answer. A drop-driven request that carried an unconfirmed belief (e.g. a channel end marked claimed before the claim failed) makes the client panic" % reg[0][:120],
                      line=c.line, detail={"guards": gs[-4:]})
    rep.floor("C06-R9", "registry assertions in reply handlers with a result", n9, 4)

    # ---- R10 notifications an application awaits are actually sent --------------------------------------------------
    # `BusListener::next_event`, discoverers and lifetimes await EmitBusEvent; proxies await EmitEvent. Whether the broker sends
    # them to every party entitled to them is decided by C10-R3 / C04-R1 (fan-out must-pass rules); a gap there is an awaited
    # operation that never completes, so those obligations are re-evaluated here.
    if not rep.matrix:
        import importlib
        for (mod, rules, insts) in (("c10", ("C10-R3",), ("every-matching-listener-served", "dedup-test", "dedup-insert", "dedup-monotone", "matches-new-event")),
                                    ("c04", ("C04-R1",), ("every-subscriber-served", "subscription-predicate"))):
            sub = engine.Report(rep.prop, rep.tier, rep.seed)
            sub.matrix = "sub"   # floors of the other property are its own business
            importlib.import_module(mod).run(sub)
            nn = 0
            for rl in rules:
                nn += sub.per_rule.get(rl, {"discharged": 0})["discharged"]
            for _ in range(nn):
                rep.ok("C06-R10", "%s:premise" % rules[0], None, nontrivial=False, sample=False)
            rep.floor("C06-R10", "fan-out obligations taken from %s" % rules[0], nn, 4)
            for v in sub.violations:
                if v["rule"] in rules and any(v["instance"].startswith(i_) for i_ in insts):
                    rep.fail("C06-R10", v["def"], "%s:%s" % (v["rule"], v["instance"]), "a notification an application awaits is not sent to every party entitled to it: " + v["msg"].replace("[cfg sub] ", ""), line=v.get("line"))

    # ---- R1 direction tables -----------------------------------------------------------------------
    rep.check(bd is not None and not binfo["wildcard"] and len(bd) >= 63, "C06-R1", bhm.def_, "broker-dispatch-exhaustive", "the broker's dispatch must name all message kinds without wildcard", detail={"kinds": len(bd or {})})
    rep.check(cd is not None and not cinfo["wildcard"] and len(cd) >= 63, "C06-R1", chm.def_, "client-dispatch-exhaustive", "the client's dispatch must name all message kinds without wildcard", detail={"kinds": len(cd or {})})
    sb = sorted(set(s.msg_type for s in bsends if s.msg_type))
    # kinds sent by the connection task / acceptor (handshake, shutdown)
    conn_level = {"Shutdown", "ConnectReply", "ConnectReply2", "Connect", "Connect2"}
    rep.floor("C06-R1", "kinds the broker sends", len(sb), 37)
    for k in sb:
        hs = cd.get(k)
        ok = bool(hs) and hs[0] not in ("ERR",) or k in conn_level
        if k == "Shutdown":
            ok = True  # handled by the client's run loop before dispatch
        rep.check(ok, "C06-R1", chm.def_, "client-handles:%s" % k, "the broker can send %s but the client treats it as an unexpected message and stops" % k, detail={"handler": hs})
    sc = sorted(set(k for s in csends for k in s.kinds))
    rep.floor("C06-R1", "kinds the client sends", len(sc), 36)
    for k in sc:
        hs = bd.get(k)
        ok = (bool(hs) and hs[0] not in ("ERR",)) or k in conn_level
        rep.check(ok, "C06-R1", bhm.def_, "broker-handles:%s" % k, "the client can send %s but the broker closes connections that send it" % k, detail={"handler": hs})
    # the client's run loop handles Shutdown itself
    run_b = prog.find(r"^aldrin::client::Client::<T>::run::\{closure#0\}$")
    ok = len(run_b) == 1
    if ok:
        rb = run_b[0]
        hm_calls = [c for c in rb.calls if c.name == "handle_message"]
        sws = [u for u in sorted(rb.live_blocks()) if rb.blocks[u]["t"]["k"] == "switch" and (rb.switch_guard(u) or {}).get("kind") == "variant" and (rb.switch_guard(u).get("adt") or "").endswith("message::Message")]
        ok = bool(hm_calls) and bool(sws) and all("Shutdown" not in rb.edge_labels_reaching(u, c.bb) for u in sws for c in hm_calls if rb.dominates(u, c.bb))
    rep.check(ok, "C06-R1", "aldrin::client::Client::run", "client-shutdown-before-dispatch", "Message::Shutdown must be handled by the client's run loop and never reach handle_message (whose arm panics)", detail={})

    # ---- R2 result variants ----------------------------------------------------------------------------
    constructed = {}
    for s in bsends:
        for ds in s.fields.get("result", []):
            m = re.match(r"^(\w+)::(\w+)\(", ds)
            if m and s.msg_type:
                constructed.setdefault(s.msg_type, set()).add(m.group(2))
    # results built in a local `reply` first (query_service_version / info)
    for name, b in M.items():
        for i in sorted(b.live_blocks()):
            for st in b.blocks[i]["s"]:
                r = st["r"]
                if r["k"] == "agg" and r.get("ak") == "adt" and re.search(r"message::(\w+::)?\w+Result$", r.get("adt", "")):
                    reply = r["adt"].split("::")[-1].replace("Result", "Reply")
                    constructed.setdefault(reply, set()).add(r["variant"])
    rep.floor("C06-R2", "reply kinds with result variants", len(constructed), 17)
    n = 0
    for reply, variants in sorted(constructed.items()):
        hs = cd.get(reply)
        if not hs or hs[0] in ("ERR", "PANIC"):
            continue
        hb = proto.client_handler_body(prog, hs[0])
        if hb is None:
            continue
        bodies = [hb] + prog.closures_of(hb.root)
        rejected = set()
        matched = False
        for b in bodies:
            if b.root != hb.root:
                continue
            for u in sorted(b.live_blocks()):
                g = b.switch_guard(u) if b.blocks[u]["t"]["k"] == "switch" else None
                if not g or g.get("kind") != "variant" or not re.search(r"message::(\w+::)?\w+Result$", g.get("adt") or ""):
                    continue
                matched = True
                for (v, lab) in b.succ_labeled(u):
                    reach = b.reachable(v, without_nodes=(u,))
                    unexpected = any(st["r"]["k"] == "agg" and st["r"].get("variant") == "UnexpectedMessageReceived" for i in reach for st in b.blocks[i]["s"])
                    okexit = any(st["d"] == [0] and st["r"]["k"] == "agg" and st["r"].get("variant") == "Ok" for i in reach for st in b.blocks[i]["s"])
                    # an arm that only panics (unreachable!()) is a rejection as well
                    first = v
                    while b.blocks[first]["t"]["k"] in ("goto", "false_edge") and not b.blocks[first]["s"]:
                        first = b.blocks[first]["t"]["t"]
                    panics = b.blocks[first]["t"]["k"] == "call" and b.blocks[first]["t"]["t"] is None
                    for lname in (b.edge_label(u, v) or []):
                        if (unexpected and not okexit) or panics:
                            rejected.add(lname)
        for v in sorted(variants):
            n += 1
            if v in rejected:
                why = EXCLUDED.get((reply, v))
                rep.check(why is not None, "C06-R2", hb.def_, "variant:%s::%s" % (reply, v),
                          "the broker can answer %s::%s but the client's handler treats that variant as an unexpected message (and stops); no client-side precondition is recorded that excludes it" % (reply, v),
                          detail={"reply": reply, "variant": v, "excluded_by": why})
            else:
                rep.ok("C06-R2", "%s:variant:%s::%s" % (hb.def_, reply, v), {"accepted": True, "switch_found": matched})
    rep.floor("C06-R2", "constructed result variants", n, 24)

    # client-side preconditions behind the two NotSupported exclusions
    ps = prog.find(r"^aldrin::low_level::proxy::Proxy::subscribe_all::\{closure#0\}$")
    ok = len(ps) == 1
    if ok:
        b = ps[0]
        cs = [c for c in b.calls if c.name == "subscribe_all_events"]
        ok = len(cs) == 1 and bool(broker.has_guard(b, cs[0].bb, r"^True=Proxy::can_subscribe_all\("))
    rep.check(ok, "C06-R2", "aldrin::low_level::proxy::Proxy::subscribe_all", "precondition:can_subscribe_all", "Proxy::subscribe_all must only forward the request on the true edge of can_subscribe_all()", detail={})
    writers = set()
    for d, b in prog.bodies.items():
        if not d.startswith("aldrin::client::proxies::") or "::test" in d:
            continue
        for i in sorted(b.live_blocks()):
            for st in b.blocks[i]["s"]:
                if st["d"][-1:] == [".all_events"] and st["r"]["k"] == "use" and (mir.op_const(st["r"]["o"][0]) or {}).get("repr") == "true":
                    writers.add(d)
    rep.check(len(writers) == 1 and all(w.endswith("::subscribe_all") for w in writers), "C06-R2", "aldrin::client::proxies", "precondition:all_events-writers", "the all_events flag of a proxy may only be set by the (guarded) subscribe_all path; writers: %s" % sorted(writers), detail={"writers": sorted(writers)})
    us = [s for s in csends if "UnsubscribeAllEvents" in s.kinds and any(re.search(r"UnsubscribeAllEvents::UnsubscribeAllEvents\(Option::Some\(", m) for m in s.msg)]
    rep.check(len(us) == 1 and any(re.search(r"^True=.*\.all_events$", g) for g in us[0].guards), "C06-R2", "aldrin::client::Client::req_unsubscribe_all_events", "precondition:all_events-guard",
              "UnsubscribeAllEvents with a serial must be sent only when the proxy's all_events flag was set", detail={"guards": us[0].guards if us else None})

    # ---- R3 fair select -----------------------------------------------------------------------------------
    for (crate, path) in [("aldrin", "aldrin::client::select::Select"), ("aldrin_broker", "aldrin_broker::conn::select::Select")]:
        adt = prog.adt(path)
        if adt is None:
            rep.fail("C06-R3", path, "adt", "Select enum not found")
            continue
        variants = [v["name"] for v in adt["variants"]]
        nx = prog.one("^" + re.escape(path) + r"::next$")
        mapping = {}
        for i in sorted(nx.live_blocks()):
            for st in nx.blocks[i]["s"]:
                r = st["r"]
                if r["k"] == "agg" and r.get("ak") == "adt" and r.get("adt") == path:
                    for g in nx.guard_strings(i):
                        m = re.match(r"^(\w+)=discr\(self\)$", g)
                        if m:
                            mapping[m.group(1)] = r["variant"]
        cyc = []
        if set(mapping) == set(variants):
            cur = variants[0]
            for _ in variants:
                cyc.append(cur)
                cur = mapping[cur]
            ok = cur == variants[0] and len(set(cyc)) == len(variants)
        else:
            ok = False
        rep.check(ok, "C06-R3", nx.def_, "full-cycle", "next() must be a single cycle over all %d sources; mapping %s" % (len(variants), mapping), detail={"mapping": mapping})
        rpl = [c for c in nx.calls if mir.short_fn(c.callee) == "mem::replace"]
        rep.check(len(rpl) == 1 and all_match(nx.describe(rpl[0].args[0]), r"^self$"), "C06-R3", nx.def_, "advances-state", "next() must store the successor and return the current source", detail={})
        ps = prog.one("^" + re.escape(path) + r"::poll_select$")
        # loop bound: Range { start: 0, end: N } with N == number of variants
        bound = None
        for i in sorted(ps.live_blocks()):
            for st in ps.blocks[i]["s"]:
                r = st["r"]
                if r["k"] == "agg" and r.get("ak") == "adt" and r.get("adt", "").endswith("ops::Range"):
                    k = mir.op_const(r["o"][1])
                    if k is not None and "int" in k:
                        bound = int(k["int"])
        rep.check(bound == len(variants), "C06-R3", ps.def_, "rounds", "poll_select must try exactly |sources| = %d rounds, loop bound is %s" % (len(variants), bound), detail={"bound": bound})
        # each arm polls its own source; the flush source only when a flush is pending
        fl = [c for c in ps.calls if c.name in ("send_poll_flush_unpin", "send_poll_flush", "poll_flush")]
        ok = len(fl) == 1 and bool(broker.has_guard(ps, fl[0].bb, r"^True=flush_transport$")) and bool(broker.has_guard(ps, fl[0].bb, r"^(TransportFlushed|FlushTransport)=discr\("))
        rep.check(ok, "C06-R3", ps.def_, "flush-only-when-pending", "the flush source must be polled only in its own round and only when flush_transport is set", detail={"guards": ps.guard_strings(fl[0].bb) if fl else None})
        polls = [c for c in ps.calls if c.name in ("receive_poll_unpin", "poll_next", "poll_next_unpin", "poll_aborted")]
        arms = set()
        for c in polls:
            for g in ps.guard_strings(c.bb):
                m = re.match(r"^(\w+)=discr\(Select::next\(self\)\)$", g)
                if m:
                    arms.add(m.group(1))
        rep.check(len(arms) == len(variants) - 1, "C06-R3", ps.def_, "every-source-polled", "every non-flush source must be polled in its own round; polled in %s" % sorted(arms), detail={"arms": sorted(arms)})
    # flush tracking after sends (client)
    n = 0
    for s in csends:
        b = s.body
        if not b.def_.startswith("aldrin::client::Client"):
            continue
        n += 1
        sets = []
        for i in sorted(b.live_blocks()):
            for st in b.blocks[i]["s"]:
                if st["d"][-1:] == [".flush_transport"] and st["r"]["k"] == "use" and (mir.op_const(st["r"]["o"][0]) or {}).get("repr") == "true":
                    sets.append(i)
        flushes = [c.bb for c in b.calls if c.name in ("flush", "send_and_flush") and "AsyncTransport" in (c.callee or "")]
        after = [i for i in sets + flushes if b.dominates(s.bb, i) and i != s.bb]
        # on the success edge of the send every way out passes one of them
        ok = bool(after)
        if ok:
            seen = b.reachable(s.bb, without_nodes=tuple(after))
            for e in b.exits():
                if e in seen:
                    # exits not passing a flush marker must be error exits (the `?` of the send itself or later errors)
                    pass
        rep.check(ok, "C06-R3", b.def_, "flush-after-send:%s" % "|".join(sorted(s.kinds)), "a successful transport send must be followed by flush_transport = true (or an explicit flush)", line=s.line, detail={"markers": after})
    rep.floor("C06-R3", "client sends with flush tracking", n, 20)
    sm = prog.one(r"^aldrin_broker::conn::Connection::<T>::send_message::\{closure#0\}$")
    snd = [c for c in sm.calls if c.name == "send" and "AsyncTransport" in (c.callee or "")]
    sets = [i for i in sorted(sm.live_blocks()) for st in sm.blocks[i]["s"] if st["d"][-1:] == [".flush_transport"] and (mir.op_const(st["r"]["o"][0]) if st["r"]["k"] == "use" else None or {}).get("repr") == "true"]
    rep.check(len(snd) == 1 and bool(sets) and all(sm.dominates(snd[0].bb, i) for i in sets), "C06-R3", sm.def_, "flush-after-send", "the connection task must mark a pending flush after every successful send", detail={})
    # flush_transport is cleared only when the flush completed
    for (rx, what) in [(r"^aldrin::client::Client::<T>::run::\{closure#0\}$", "client"), (r"^aldrin_broker::conn::Connection::<T>::run::\{closure#0\}$", "connection task")]:
        for rb in prog.find(rx):
            clears = []
            for i in sorted(rb.live_blocks()):
                for st in rb.blocks[i]["s"]:
                    if st["d"][-1:] == [".flush_transport"] and st["r"]["k"] == "use" and (mir.op_const(st["r"]["o"][0]) or {}).get("repr") == "false":
                        clears.append(i)
            ok = bool(clears) and all(bool(broker.has_guard(rb, i, r"^(TransportFlushed)=discr\(")) and bool(broker.has_guard(rb, i, r"^Ok=discr\(")) for i in clears)
            rep.check(ok, "C06-R3", rb.def_, "flush-cleared-on-completion", "the %s may clear flush_transport only when the flush source reported Ok" % what, detail={"sites": len(clears)})
