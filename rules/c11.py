"""C11 — the broker survives arbitrary message sequences and keeps serving others (narrow structural clauses)."""
import re

import broker
import engine
import mir
from c02 import all_match, any_match

EXPLANATION = (
    "Static taint/dispatch/provenance rules over aldrin_broker (rustc MIR). Decided: (R1) no field of a client message (nor the sender's connection id) is "
    "the key of a registry lookup that is unwrapped/expected unless the very same lookup was tested Some on a dominating edge; all other unwrapped lookups "
    "are keyed by values read from another broker map (internal keys — their totality rests on the co-mutation rules of C02/C03/C09); (R2) handle_message "
    "dispatches all 63 kinds without a wildcard, every broker-to-client kind is rejected with Err, and a handler's Err removes exactly the sending "
    "connection; (R3) Message::Shutdown is never forwarded into the broker queue; (R5) a connection is torn down only for its own faults: every "
    "push_remove_conn(X) is controlled by a failed send to X itself or by a handler error of a message sent by X, and in the connection task the "
    "teardown edge after send_message must have only transport causes. The last rule FAILS on today's tree for VersionedMessage::convert_value (a foreign "
    "payload) — recorded as known finding F3; (R6) the premise of the panicking arm of Channel::close on the client-driven path: check_close never answers Ok "
    "for an end that is already Closed and the CloseChannelEnd handler reaches Channel::close only on that Ok; (R7) the premises of the internal-key "
    "expects — co-mutation of the call bookkeeping (C02-R4) and of the registries (C03-R1) — re-evaluated as obligations of this property; (R8) provenance of a handler's Err(()): it removes the sending connection, so the value "
    "returned by each of the 27 Result-returning handlers may only stem from explicit Err/Ok constants and from sends to self.conns[id] (through ?, and/or/map "
    "combinators and nested handlers) — never from a send to another connection. Not decided: panics behind internal-key expects and Channel::close's unreachable arms over all histories; hangs."
)

DIRECT = re.compile(r"^(req(\.[\w.]+)?|id|msg(\.[\w.]+)?)$")


def lookup_parts(desc):
    """'self.objs[KEY]' / 'self.x.remove(KEY)' -> (map, key) for the outermost lookup"""
    m = re.match(r"^(self\.\w+)\[(.*)\](\.0)?$", desc)
    if m:
        return m.group(1), m.group(2)
    m = re.match(r"^(self\.\w+)\.(remove|entry)\((.*)\)(\.0)?$", desc)
    if m:
        return m.group(1), m.group(3)
    return None, None


def run(rep):
    rep.explanation = EXPLANATION
    rep.trusted = ["rustc nightly MIR", "co-mutation invariants decided by C02-R4 / C03-R1 / C09-R1 (internal keys)"]
    rep.assumptions = ["ConnectionEvent and ConnectionState are crate-private (witness W5)"]
    cfg = engine.config_for("C11")
    prog = broker.load(config=cfg)
    M = broker.methods(prog)

    # ---- R1 taint ----------------------------------------------------------------------------------
    n_sites = 0
    n_internal = 0
    for name, b in sorted(M.items()):
        for c in b.calls:
            if c.name not in ("expect", "unwrap", "unwrap_unchecked") or not (c.callee or "").startswith(("std::option", "std::result", "core::option", "core::result")):
                continue
            descs = sorted(b.describe(c.args[0]))
            for ds in descs:
                mp, key = lookup_parts(ds)
                if mp is None:
                    continue
                n_sites += 1
                keys = [k.strip() for k in key.split("|")]
                direct = [k for k in keys if DIRECT.match(k)]
                if not direct:
                    n_internal += 1
                    rep.ok("C11-R1", "%s:%s" % (b.def_, ds[:80]), {"class": "internal-key", "lookup": ds}, sample=(n_internal <= 2))
                    continue
                guarded = bool(broker.has_guard(b, c.bb, r"^Some=discr\(%s\)$" % re.escape(ds.rstrip(".0") if ds.endswith(".0") else ds))) or \
                    bool(broker.has_guard(b, c.bb, r"^Some=discr\(%s\[%s\]\)$" % (re.escape(mp), re.escape(key))))
                rep.check(guarded, "C11-R1", b.def_, "unwrap-of-client-keyed-lookup:%s[%s]" % (mp, key),
                          "a lookup keyed directly by client-controlled data (%s) is unwrapped without a dominating Some test of the same lookup: a stale or forged value panics the broker" % key, line=c.line,
                          detail={"lookup": ds, "guards": b.guard_strings(c.bb)})
    rep.floor("C11-R1", "unwrapped registry lookups", n_sites, 20)
    # serialized ServiceInfo expect: value is broker-built
    # Index sugar (map[key]) would panic too: none may be keyed by client data
    for name, b in sorted(M.items()):
        for c in b.calls:
            if c.name in ("index", "index_mut") and (c.trait or "").endswith(("ops::Index", "ops::IndexMut")):
                keys = sorted(b.describe(c.args[1]))
                rep.check(not any(DIRECT.match(k) for k in keys), "C11-R1", b.def_, "index-by-client-key", "indexing a collection with client-controlled data panics on a miss", line=c.line, detail={"keys": keys})

    # ---- R2 dispatch ---------------------------------------------------------------------------------
    hm = M["handle_message"]
    sw = [u for u in sorted(hm.live_blocks()) if hm.blocks[u]["t"]["k"] == "switch" and (hm.switch_guard(u) or {}).get("kind") == "variant" and (hm.switch_guard(u).get("adt") or "").endswith("message::Message")]
    rep.check(len(sw) == 1, "C11-R2", hm.def_, "one-dispatch", "handle_message must dispatch on the message kind once", detail={"switches": len(sw)})
    if sw:
        u = sw[0]
        g = hm.switch_guard(u)
        t = hm.blocks[u]["t"]
        named = set(v for (v, _bb) in t["v"])
        allv = set(g["labels"].keys())
        other = hm.blocks[t["o"]]
        wildcard = not (other["t"]["k"] == "unreachable")
        rep.check(len(allv) >= 63 and named == allv and not wildcard, "C11-R2", hm.def_, "exhaustive-no-wildcard", "all %d message kinds must be dispatched explicitly (named %d, wildcard arm: %s)" % (len(allv), len(named), wildcard), detail={"kinds": len(allv)})
        handled = {}
        rejected = set()
        unreachable = set()
        for (val, bb) in t["v"]:
            kind = g["labels"][val]
            reach = hm.reachable(bb, without_nodes=(u,))
            hs = [c for c in hm.calls if c.bb in reach and (c.callee or "").startswith("aldrin_broker::broker::Broker::")]
            if hs:
                handled[kind] = sorted(set(c.name for c in hs))
                continue
            # no handler: either `return Err(())` or unreachable!()
            errs = any(st["d"] == [0] and st["r"]["k"] == "agg" and st["r"].get("variant") == "Err" for i in reach for st in hm.blocks[i]["s"])
            div = any(hm.blocks[i]["t"]["k"] == "call" and hm.blocks[i]["t"]["t"] is None for i in reach)
            if errs:
                rejected.add(kind)
            elif div:
                unreachable.add(kind)
        rep.floor("C11-R2", "handled kinds", len(handled), 34)
        for kind, hs in sorted(handled.items()):
            rep.check(len(hs) == 1, "C11-R2", hm.def_, "arm:%s" % kind, "arm %s must delegate to exactly one handler: %s" % (kind, hs), detail={"handler": hs})
        rep.check(unreachable == {"Shutdown"}, "C11-R2", hm.def_, "only-shutdown-unreachable", "only Message::Shutdown may be declared unreachable here (handled by the connection task): %s" % sorted(unreachable), detail={})
        # every kind the broker itself sends (and does not also accept) must be rejected when a client sends it
        sent = set(s.msg_type for s in broker.all_sends(prog) if s.msg_type)
        must_reject = sent - set(handled) - {"Shutdown"}
        rep.check(must_reject <= rejected, "C11-R2", hm.def_, "rejects-broker-to-client-kinds", "broker-to-client kinds must be rejected with Err: missing %s" % sorted(must_reject - rejected), detail={"rejected": sorted(rejected)})
        rep.check(rejected | set(handled) | unreachable == set(g["labels"].values()), "C11-R2", hm.def_, "partition", "every kind must be handled, rejected or the connection-level Shutdown", detail={})
    he = M["handle_event"]
    pr = [c for c in he.calls if c.name == "push_remove_conn" and broker.has_guard(he, c.bb, r"^Message=discr\(ev\)$")]
    ok = len(pr) == 1 and bool(broker.has_guard(he, pr[0].bb, r"^True=Result::is_err\(Broker::handle_message\(self, state, ev\.0\b")) and all_match(he.describe(pr[0].args[1]), r"^ev\.0$")
    rep.check(ok, "C11-R2", he.def_, "err-removes-sender-only", "a handler error must remove exactly the connection that sent the message", detail={"guards": he.guard_strings(pr[0].bb) if pr else None})

    # ---- R3 Shutdown never reaches the broker ------------------------------------------------------------
    runs = prog.find(r"^aldrin_broker::conn::Connection::<T>::run::\{closure#0\}$")
    if len(runs) == 1:
        rb = runs[0]
        sbm = [c for c in rb.calls if c.name == "send_broker_msg"]
        ok = len(sbm) == 1
        if ok:
            sws = [u for u in sorted(rb.live_blocks()) if rb.blocks[u]["t"]["k"] == "switch" and (rb.switch_guard(u) or {}).get("kind") == "variant" and (rb.switch_guard(u).get("adt") or "").endswith("message::Message") and rb.dominates(u, sbm[0].bb)]
            ok = bool(sws) and all("Shutdown" not in rb.edge_labels_reaching(u, sbm[0].bb) for u in sws)
        rep.check(ok, "C11-R3", "aldrin_broker::conn::Connection::run", "shutdown-not-forwarded", "the forwarding of client messages into the broker queue must not be reachable from the Message::Shutdown edge", detail={"sites": len(sbm)})
    else:
        rep.fail("C11-R3", "aldrin_broker::conn::Connection::run", "body", "Connection::run body not found")
    ctor = []
    for d, b in prog.bodies.items():
        if not d.startswith("aldrin_broker::") or "::test" in d:
            continue
        for i in b.live_blocks():
            for st in b.blocks[i]["s"]:
                r = st["r"]
                if r["k"] == "agg" and r.get("adt", "").endswith("conn::event::ConnectionEvent") and r.get("variant") == "Message":
                    ctor.append(b.def_)
    rep.check(len(ctor) == 1 and "send_broker_msg" in ctor[0], "C11-R3", "aldrin_broker::conn::event::ConnectionEvent", "who-may-construct-Message", "ConnectionEvent::Message may only be built by Connection::send_broker_msg: %s" % ctor, detail={"sites": ctor})

    # ---- R5 teardown provenance ----------------------------------------------------------------------------
    n = 0
    for name, b in sorted(M.items()):
        for c in b.calls:
            if c.name != "push_remove_conn":
                continue
            n += 1
            who = sorted(b.describe(c.args[1]))
            g = b.guard_strings(c.bb)
            own_send = False
            who_orig = b.origins(c.args[1])
            for (sc, keys, direct) in broker.failed_send_targets(b, c.bb):
                if who_orig & keys or who_orig & direct:
                    own_send = True
            handler_err = name == "handle_event" and any(re.match(r"^True=Result::is_err\(Broker::handle_message\(", x) for x in g) and who == ["ev.0"]
            explicit = name == "handle_event" and any(re.match(r"^(ConnectionShutdown|ShutdownConnection)=discr\(ev\)$", x) for x in g)
            rep.check(own_send or handler_err or explicit, "C11-R5", b.def_, "remove-conn-cause:%s" % "|".join(who)[:80],
                      "connection %s is queued for removal, but not because a send to that very connection failed, nor for an error of its own message" % who, line=c.line, detail={"guards": g, "who": who})
    rep.floor("C11-R5", "push_remove_conn sites", n, 12)
    # emit_bus_event collects failing connections in a set first
    eb = M["emit_bus_event"]
    ins = [c for c in eb.calls if c.name == "insert" and broker.has_guard(eb, c.bb, r"^True=Result::is_err\(ConnectionState::send\(")]
    rep.check(len(ins) == 1 and all_match(eb.describe(ins[0].args[1]), r"^BusListener::conn_id\("), "C11-R5", eb.def_, "remove-conns-cause", "emit_bus_event must queue for removal exactly the connections whose send failed", detail={})
    # connection task: causes of the teardown after send_message
    sm = prog.find(r"^aldrin_broker::conn::Connection::<T>::send_message::\{closure#0\}$")
    if len(sm) == 1 and len(runs) == 1:
        smb = sm[0]
        rb = runs[0]
        ce = [c for c in rb.calls if c.name == "client_error"]
        after_send = [c for c in ce if any(re.search(r"^Err=discr\(Future::poll\(Connection::send_message\(", x) for x in rb.guard_strings(c.bb))]
        rep.check(len(after_send) == 1, "C11-R5", "aldrin_broker::conn::Connection::run", "teardown-after-send-site", "expected one teardown site controlled by the Err result of send_message", detail={"sites": len(after_send)})
        causes = set()
        for c in smb.calls:
            if c.name == "branch" and (c.trait or "").endswith("ops::Try"):
                for ds in smb.describe(c.args[0]):
                    if re.match(r"^VersionedMessage::convert_value\(", ds):
                        causes.add("convert_value")
                    elif re.match(r"^Future::poll\(AsyncTransport(Ext)?::\w+\(upvar:self\.transport", ds):
                        causes.add("transport")
                    else:
                        causes.add("other:" + ds[:60])
        rep.check("transport" in causes, "C11-R5", "aldrin_broker::conn::Connection::send_message", "provenance-extracted", "the fallible steps of send_message could not be extracted", detail={"causes": sorted(causes)})
        for cause in sorted(causes - {"transport"}):
            rep.fail("C11-R5", "aldrin_broker::conn::Connection::run", "teardown<-%s" % cause,
                     "the receiving connection is torn down (client_error) when %s fails, but the payload converted there was written by ANOTHER connection: a malformed foreign payload disconnects a well-behaved peer" % cause,
                     line=after_send[0].line if after_send else None, extra={"causes": sorted(causes)})
    else:
        rep.fail("C11-R5", "aldrin_broker::conn::Connection::send_message", "body", "send_message / run body not found")

    # ---- R6 premises of the panicking arms of Channel::close on the client-driven path ---------------
    # Channel::close panics (unreachable!()) when the named end is already Closed. A client reaches it through
    # CloseChannelEnd -> check_close == Ok -> remove_channel_end -> close: check_close must not answer Ok for a Closed end.
    r6(rep, prog, M)
    r6_premises(rep, prog)
    r8(rep, prog, M)

    # ---- R7 premises of the internal-key expect()s -------------------------------------------------------
    # R1 classifies 30+ unwrapped lookups as keyed by values read from another broker map; they cannot panic only while
    # those maps are mutated together. The co-mutation rules are decided by C02-R4 (call bookkeeping) and C03-R1
    # (registries); they are re-evaluated here as obligations of this property, because a broken premise is a broker panic.
    import importlib
    for (mod, rules) in (("c02", ("C02-R4",)), ("c03", ("C03-R1",))):
        sub = engine.Report(rep.prop, rep.tier, rep.seed)
        sub.matrix = rep.matrix
        importlib.import_module(mod).run(sub)
        for rl in rules:
            pr = sub.per_rule.get(rl, {"obligations": 0, "discharged": 0})
            for _ in range(pr["discharged"]):
                rep.ok("C11-R7", "%s:premise" % rl, None, nontrivial=False, sample=False)
            if not rep.matrix:
                rep.floor("C11-R7", "premise obligations taken from %s" % rl, pr["obligations"], 10)
        for v in sub.violations:
            if v["rule"] in rules:
                rep.fail("C11-R7", v["def"], "%s:%s" % (v["rule"], v["instance"]), "premise of the internal-key expect()s (a stale key makes a later `.expect(\"inconsistent state\")` panic the broker): " + v["msg"], line=v.get("line"))


CHS = "aldrin_broker::broker::channel::"


def r6(rep, prog, M):
    cl = prog.one("^" + re.escape(CHS) + r"Channel::close$")
    pc = [c for c in cl.calls if re.search(r"core::panicking::", c.callee or "")]
    rep.floor("C11-R6", "panicking arms of Channel::close", len(pc), 1)
    cc = prog.one("^" + re.escape(CHS) + r"Channel::check_close$")
    # the switch on the end's state
    n = 0
    for u in sorted(cc.live_blocks()):
        g = cc.switch_guard(u) if cc.blocks[u]["t"]["k"] == "switch" else None
        if not g or g.get("kind") != "variant" or not (g.get("adt") or "").endswith("::ChannelEndState"):
            continue
        t = cc.blocks[u]["t"]
        val = [v for v, nme in g["labels"].items() if nme == "Closed"]
        tgt = [bb for (v, bb) in t["v"] if v in val] or [t["o"]]
        reach = cc.reachable(tgt[0])
        oks = []
        for i in sorted(reach):
            for st in cc.blocks[i]["s"]:
                r = st["r"]
                if r["k"] == "agg" and r.get("ak") == "adt" and r["adt"].endswith("::CloseChannelEndResult") and r.get("variant") == "Ok":
                    oks.append(i)
        n += 1
        rep.check(not oks, "C11-R6", cc.def_, "closed-end-not-closable", "check_close answers Ok for an end that is already Closed: a second CloseChannelEnd from any client then reaches the unreachable!() arm of Channel::close and the broker panics",
                  detail={"ok_blocks": oks})
    rep.floor("C11-R6", "state switches of check_close", n, 1)
    ch = M["close_channel_end"]
    rce = [c for c in ch.calls if c.name == "remove_channel_end"]
    ok = bool(rce) and all(broker.has_guard(ch, c.bb, r"^True=PartialEq::eq\(Channel::check_close\(.*\)\.0, CloseChannelEndResult::Ok\(\)\)$") for c in rce)
    rep.check(ok, "C11-R6", ch.def_, "close-only-after-check", "the CloseChannelEnd handler must reach Channel::close only when check_close answered Ok", detail={"sites": len(rce)})


def r6_premises(rep, prog):
    import os
    import tomllib
    tab = tomllib.load(open(os.path.join(engine.VERIF, "tables", "c11.toml"), "rb"))
    for pr in tab["premise"]:
        b = prog.body(pr["fn"])
        if b is None:
            rep.fail("C11-R6", pr["fn"], "premise-fn", "function listed in tables/c11.toml not found")
            continue
        pcs = [c for c in b.calls if re.search(r"core::panicking::", c.callee or "")]
        rep.check(bool(pcs), "C11-R6", b.def_, "premise-sites", "no panicking check left in a function listed in tables/c11.toml (the entry is stale)", detail={})
        for c in pcs:
            ok = any(re.search(pr["guard"], g) for g in b.guard_strings(c.bb))
            rep.check(ok, "C11-R6", b.def_, "client-value-premise", "a panicking check in %s is reachable without its premise %s on the client-supplied value: %s" % (b.name, pr["guard"], pr["reason"]), line=c.line, detail={"guards": b.guard_strings(c.bb)[-6:]})


def r8(rep, prog, M):
    """provenance of a handler's Err(()): only the sender's own faults"""
    import proto
    bd, _info, _hm = proto.broker_dispatch(prog)
    todo = sorted(set(h for v in (bd or {}).values() for h in v if h in M))
    done = set()
    n = 0
    COMB = ("from_residual", "branch", "and", "or", "and_then", "or_else", "map", "map_err", "into", "from")
    while todo:
        h = todo.pop()
        if h in done:
            continue
        done.add(h)
        b = M[h]
        if not b.locals[0]["ty"].startswith("std::result::Result"):
            continue
        sends = {s.bb: s for s in broker.sends(b)}
        seen = set()
        bad = []

        def walk(operand, depth):
            if depth <= 0:
                bad.append("depth")
                return
            for o in b.origins(operand):
                if o in seen:
                    continue
                seen.add(o)
                if o[0] == "call":
                    cs = [x for x in b.calls if x.bb == o[1]]
                    if not cs:
                        continue
                    c = cs[0]
                    if o[1] in sends:
                        tgt = sends[o[1]].target
                        if not all(re.match(r"^self\.conns\[id\]", t) for t in tgt):
                            bad.append("result of a send to %s" % sorted(tgt))
                    elif c.name in COMB:
                        for a in c.args:
                            walk(a, depth - 1)
                    elif (c.callee or "").startswith("aldrin_broker::broker::Broker::") and c.name in M:
                        todo.append(c.name)
                    elif (c.callee or "").endswith("ConnectionState::send"):
                        ds = b.describe(c.args[0])
                        if not all(re.match(r"^self\.conns\[id\]", t) for t in ds):
                            bad.append("result of a send to %s" % sorted(ds))
                    else:
                        bad.append("result of %s" % mir.short_fn(c.callee))
                elif o[0] in ("agg", "const", "param"):
                    continue
                else:
                    bad.append(str(o[0]))
        walk(["c", [0]], 8)
        n += 1
        rep.check(not bad, "C11-R8", b.def_, "err-provenance", "a handler's Err(()) removes the SENDING connection, so it may only stem from that connection's own faults (an explicit protocol violation or a failed send to it); here it can stem from: %s" % sorted(set(bad)),
                  line=b.span, detail={"sources": sorted(set(bad))})
    rep.floor("C11-R8", "handlers returning Result", n, 20)
