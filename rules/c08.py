"""C08 — message codec round-trip and strict parsing of all message kinds (structural clauses)."""
import re

import bounds
import engine
import mir
import msgcodec
import sig
from c05 import rows

EXPLANATION = (
    "Static mirror check of the 63 serialize_message / deserialize_message pairs with field identity, on rustc MIR. Decided: (R1) for every message "
    "kind the set of writer paths equals the set of reader paths as sequences of (varint32 | uuid | discriminant Enum::Variant | sub-codec) tokens, each "
    "labelled with the message field the datum comes from / flows into (swapped same-typed fields are visible), and the writer's mapping data-variant → "
    "discriminant is the inverse of the reader's mapping discriminant → constructed variant; (R2) the frame constructor of writer and reader agree "
    "(with/without value, same MessageKind constant = the impl's own kind()), and MessageKind::has_value is true exactly for the value-carrying group; "
    "(R3) strictness: every accepting path of every deserialize_message ends in finish / finish_discard_value (the trailing-data check), both "
    "deserializer constructors accept only when the length prefix equals the frame length and the kind byte matches, finish() of the serializer writes "
    "the prefix from the buffer length; (R4) the dispatch tables of `Message` (kind, serialize, deserialize, value, value_mut, From) delegate arm X to "
    "type X and re-wrap into X, without wildcard; (R5) the payload handed to with_value comes from, and the payload returned by finish flows into, the "
    "same field. Raw buffer accesses of the message decoder are covered by the bounds rule shared with C07. Not decided: re-serialization fixpoint as an "
    "executed fact. (R6) the three message-level primitives (varint32, uuid, discriminant byte) of MessageSerializer and of both deserializers have the "
    "same wire shape (const-generic varint width 4, 16 bytes, one kind byte)."
)


def run(rep):
    rep.explanation = EXPLANATION
    rep.trusted = ["rustc nightly MIR", "num_enum TryFromPrimitive rejects unknown discriminants", "bytes::BytesMut::split_off/unsplit semantics"]
    rep.assumptions = ["MessageOps is sealed (witness W2): the 63 impls + Message are the whole set"]
    fdir = engine.ensure_facts(engine.config_for("C08"))
    prog = mir.Program(fdir, crates=["aldrin_core"])
    M = msgcodec.message_impls(prog)
    msgs = {k: v for k, v in M.items() if k != "Message"}
    rep.floor("C08-R1", "message kinds", len(msgs), 63)
    kinds_adt = prog.adt("aldrin_core::message::kind::MessageKind") or prog.adt("aldrin_core::message::MessageKind")
    kind_names = [v["name"] for v in kinds_adt["variants"]] if kinds_adt else []
    rep.check(set(kind_names) == set(msgs), "C08-R2", "aldrin_core::message::MessageKind", "kinds=impls", "every MessageKind must have exactly one MessageOps impl of the same name; difference: %s" % sorted(set(kind_names) ^ set(msgs)), detail={})

    with_value = set()
    for name, m in sorted(msgs.items()):
        sb, db, kb = m.get("serialize_message"), m.get("deserialize_message"), m.get("kind")
        if not sb or not db or not kb:
            rep.fail("C08-R1", "aldrin_core::message::" + name, "methods", "MessageOps methods not found")
            continue
        try:
            wp = msgcodec.writer_paths(prog, sb)
            rp, rv = msgcodec.reader_paths(prog, db)
        except sig.PathExplosion:
            rep.fail("C08-R1", sb.def_, "paths", "path bound exceeded; fails closed")
            continue
        W = {}
        wmap = {}
        for t in wp:
            seq, payload, mp = msgcodec.canon_writer(t)
            W[seq] = payload
            for k, v in mp.items():
                wmap.setdefault(k, set()).add(v)
        R = {}
        for t in rp:
            seq, payload = msgcodec.canon_reader(t)
            R[seq] = payload
        rep.check(bool(W) and bool(R), "C08-R1", sb.def_, "has-paths", "no success path found for writer or reader of %s" % name, detail={})
        # R1 mirror with field identity
        for seq in sorted(W, key=str):
            rep.check(seq in R, "C08-R1", sb.def_, "mirror:%s" % sig.fmt(seq)[:80],
                      "%s: the writer produces [%s] but no accepting path of the reader parses that sequence into the same fields; reader paths: %s" % (name, sig.fmt(seq), " || ".join(sig.fmt(x) for x in sorted(R, key=str))),
                      line=sb.span, detail={"writer": sig.fmt(seq)})
        for seq in sorted(R, key=str):
            rep.check(seq in W, "C08-R1", db.def_, "mirror-back:%s" % sig.fmt(seq)[:80],
                      "%s: the reader accepts [%s] which no writer path produces (re-serialisation would differ)" % (name, sig.fmt(seq)), line=db.span, detail={"reader": sig.fmt(seq)})
        # every wire datum is attributed to a field
        madt = prog.adt(sb.impl_self or "")
        is_enum_msg = madt is not None and madt["kind"] == "Enum"
        unk = [t for seq in list(W) + list(R) for t in seq if t[0] in ("V32", "UUID", "SUB", "DISCF") and (not t[-1] or any(p == ("?",) or (p == () and not is_enum_msg) for p in t[-1]))]
        rep.check(not unk, "C08-R1", sb.def_, "fields-attributed", "%s: wire data without an attributable message field: %s" % (name, unk[:3]), detail={})
        # R5 payload identity
        for seq, payload in W.items():
            if seq in R:
                rep.check(payload == R[seq], "C08-R5", sb.def_, "payload:%s" % sig.fmt(seq)[:60], "%s: the writer takes the payload from %s but the reader puts it into %s" % (name, payload, R[seq]), detail={"writer": str(payload), "reader": str(R[seq])})
        # variant mapping inverse
        rmap = reader_variant_map(prog, db)
        for (adt, dv), discs in sorted(wmap.items()):
            for disc in sorted(discs):
                back = rmap.get(disc)
                if back is None:
                    continue
                rep.check(back == {dv}, "C08-R1", db.def_, "variant:%s->%s" % (dv, disc), "%s: the writer encodes %s::%s as %s, but the reader decodes %s as %s" % (name, adt, dv, disc, disc, sorted(back)), detail={})
        # R2 constructor agreement
        ctor_w = set((t[1], t[2]) for seq in W for t in seq if t[0] == "C")
        ctor_r = set((t[1], t[2]) for seq in R for t in seq if t[0] == "C")
        kconst = set()
        for i in sorted(kb.live_blocks()):
            for st in kb.blocks[i]["s"]:
                if st["d"] == [0] and st["r"]["k"] == "agg":
                    kconst.add("MessageKind::" + st["r"]["variant"])
        ok = len(ctor_w) == 1 and ctor_w == ctor_r and kconst == {"MessageKind::" + name} and set(k for (_w, k) in ctor_w) == kconst
        rep.check(ok, "C08-R2", sb.def_, "frame-constructor", "%s: writer frame %s, reader frame %s, kind() = %s must all agree and name the message's own kind" % (name, sorted(ctor_w), sorted(ctor_r), sorted(kconst)), detail={})
        if ctor_w and list(ctor_w)[0][0] == "with":
            with_value.add(name)
        # R3 strictness: every accepting path ends with the trailing-data check
        for t in rp:
            fins = [x for x in t if x[0] == "FIN"]
            rep.check(len(fins) == 1 and t[-1][0] == "FIN", "C08-R3", db.def_, "finish-last", "%s: an accepting path of the reader does not end with finish()/finish_discard_value() (trailing bytes would be accepted)" % name, detail={"path": sig.fmt(t)[:200]})
    rep.exhaustive["C08-R1"] = True

    # has_value table
    hv = prog.one(r"^aldrin_core::message::kind::MessageKind::has_value$")
    true_kinds = set()
    sw = [u for u in sorted(hv.live_blocks()) if hv.blocks[u]["t"]["k"] == "switch"]
    for i in sorted(hv.live_blocks()):
        for st in hv.blocks[i]["s"]:
            if st["r"]["k"] == "use":
                k = mir.op_const(st["r"]["o"][0])
                if k is not None and k.get("ty") == "bool" and k.get("repr") == "true":
                    for u in sw:
                        true_kinds |= hv.edge_labels_reaching(u, i)
    if not true_kinds:
        # `matches!` compiles to a switch whose listed targets are the true arm
        pass
    rep.check(true_kinds == with_value, "C08-R2", hv.def_, "has_value-table", "MessageKind::has_value is true for %s but the value-carrying frame is used by %s" % (sorted(true_kinds - with_value), sorted(with_value - true_kinds)), detail={"has_value": sorted(true_kinds), "with_value": sorted(with_value)})
    rep.floor("C08-R2", "value-carrying kinds", len(with_value), 9)

    # ---- R3 frame checks of the deserializer constructors / serializer finish ----------------------------
    nw = prog.one(r"^aldrin_core::message::deserializer::MessageWithoutValueDeserializer::new$")
    okr = [r for r in rows(nw) if r[0] == "Result::Ok"]
    g = okr[0][2] if okr else []
    ok = len(okr) == 1 and any(re.match(r"^False=Lt\(BytesMut::len\(buf\), const:5_usize\)$", x) for x in g) and any(re.match(r"^False=Ne\(BytesMut::len\(buf\), .*get_u32_le\(buf\)", x) for x in g) \
        and any(re.match(r"^Continue=discr\(MessageBufExt::ensure_discriminant_u8\(buf, kind\)\)$", x) for x in g)
    rep.check(ok, "C08-R3", nw.def_, "frame-accept", "a frame without value may be accepted only if it has >= 5 bytes, the prefix equals the frame length and the kind byte matches", detail={"guards": g})
    wv = prog.one(r"^aldrin_core::message::deserializer::MessageWithValueDeserializer::new$")
    okr = [r for r in rows(wv) if r[0] == "Result::Ok"]
    g = okr[0][2] if okr else []
    ok = len(okr) == 1 and any(re.match(r"^False=Lt\(BytesMut::len\(buf\), const:10_usize\)$", x) for x in g) and any(re.match(r"^False=Ne\(BytesMut::len\(buf\), ", x) for x in g) \
        and any(re.match(r"^False=Ne\(.*Into::into\(kind\)|^False=Ne\(.*kind", x) for x in g) and any(re.match(r"^False=Lt\(.*const:1_usize\)$", x) for x in g) and any(re.match(r"^False=Gt\(", x) for x in g)
    rep.check(ok, "C08-R3", wv.def_, "frame-accept", "a frame with value may be accepted only if it has >= 10 bytes, the prefix equals the frame length, the kind byte matches and 1 <= value_len <= len - 9", detail={"guards": g})
    for rx in (r"^aldrin_core::message::deserializer::MessageWithoutValueDeserializer::finish$", r"^aldrin_core::message::deserializer::MessageWithValueDeserializer::finish$", r"^aldrin_core::message::deserializer::MessageWithValueDeserializer::finish_discard_value$"):
        b = prog.one(rx)
        okr = [r for r in rows(b) if r[0] == "Result::Ok"]
        tr = [r for r in rows(b) if r[0].endswith("TrailingData")]
        ok = bool(okr) and all(any(re.match(r"^True=BytesMut::is_empty\(self\.(buf|msg)\)$", x) for x in r[2]) for r in okr) and bool(tr)
        rep.check(ok, "C08-R3", b.def_, "trailing-data", "finish must accept only an exhausted frame and report TrailingData otherwise", detail={})
    sf = prog.one(r"^aldrin_core::message::serializer::MessageSerializer::finish$")
    ln = [c for c in sf.calls if c.name == "len"]
    tb = [c for c in sf.calls if c.name == "to_le_bytes"]
    ok = len(ln) >= 1 and len(tb) == 1 and any("BytesMut::len(self.buf)" in d for d in sf.describe(tb[0].args[0]))
    rep.check(ok, "C08-R3", sf.def_, "prefix-from-length", "the length prefix must be computed from the finished buffer's length", detail={"desc": sorted(sf.describe(tb[0].args[0])) if tb else None})
    # raw accesses of the message decoder (shared bounds rule)
    import tomllib, os
    tab = tomllib.load(open(os.path.join(engine.VERIF, "tables", "c07.toml"), "rb"))
    site_tab = {s_["key"]: s_ for s_ in tab.get("site", [])}
    n = 0
    for d, b in sorted(prog.bodies.items()):
        if not (d.startswith("aldrin_core::message::deserializer::") or d == "<aldrin_core::message::Message as aldrin_core::message::MessageOps>::deserialize_message" or d.startswith("aldrin_core::buf_ext::MessageBufExt::")):
            continue
        for s_ in bounds.raw_sites(b):
            n += 1
            lvl, why = bounds.guard_level(s_)
            minimum = site_tab.get(s_.key(), {}).get("min", "strong")
            rep.check({"none": 0, "weak": 1, "strong": 2}[lvl] >= {"none": 0, "weak": 1, "strong": 2}[minimum], "C08-R3", d, "bounds:%s" % s_.kind, "raw buffer access `%s` in the message decoder has guard level %s, required %s" % (s_.kind, lvl, minimum), line=s_.line, detail={"guard": why})
    rep.floor("C08-R3", "raw accesses in the message decoder", n, 9)

    # ---- R6 L1 primitives of the message codec: writer and reader agree on widths -------------------------------
    import codec

    def l1_classify(c):
        r = codec.codec_classify(c)
        if r is None and c.callee and (c.callee.startswith("aldrin_core::message::serializer::") or c.callee.startswith("aldrin_core::message::deserializer::")):
            return "EXPAND"
        return r
    S1 = sig.Sig(prog, l1_classify)
    prims = [("put_varint_u32_le", "try_get_varint_u32_le", (("X", "varint", 4),)), ("put_uuid", "try_get_uuid", (("X", "b", 16),)), ("put_discriminant_u8", "try_get_discriminant_u8", None)]
    for (w, r_, want) in prims:
        wb = prog.one(r"^aldrin_core::message::serializer::MessageSerializer::%s$" % w)
        ws = set(codec.merge_fixed(t) for t in S1.tokens(wb))
        for pre in ("MessageWithValueDeserializer", "MessageWithoutValueDeserializer"):
            rb = prog.one(r"^aldrin_core::message::deserializer::%s::%s$" % (pre, r_))
            rs = set(codec.merge_fixed(t) for t in S1.tokens(rb))
            if want is None:
                ok = all(len(x) == 1 and x[0][0] == "K" for x in ws | rs) and bool(ws) and bool(rs)
            else:
                ok = ws == {want} and rs == {want}
            rep.check(ok, "C08-R6", wb.def_, "primitive:%s<->%s::%s" % (w, pre, r_), "message primitive %s writes %s but %s::%s reads %s" % (w, sorted(sig.fmt(x) for x in ws), pre, r_, sorted(sig.fmt(x) for x in rs)), line=wb.span,
                      detail={"writer": sorted(sig.fmt(x) for x in ws), "reader": sorted(sig.fmt(x) for x in rs)})

    # ---- R4 dispatch tables of Message ---------------------------------------------------------------------
    mm = M.get("Message", {})
    for meth in ("kind", "serialize_message", "deserialize_message", "value", "value_mut"):
        b = mm.get(meth)
        if b is None:
            rep.fail("C08-R4", "aldrin_core::message::Message", "method:%s" % meth, "method not found")
            continue
        sw = [u for u in sorted(b.live_blocks()) if b.blocks[u]["t"]["k"] == "switch" and (b.switch_guard(u) or {}).get("kind") == "variant" and re.search(r"message::(kind::)?(Message|MessageKind)$", b.switch_guard(u).get("adt") or "")]
        if not sw:
            rep.fail("C08-R4", b.def_, "dispatch", "no dispatch on the message kind found")
            continue
        u = max(sw, key=lambda x: len(b.blocks[x]["t"]["v"]))
        t = b.blocks[u]["t"]
        wildcard = b.blocks[t["o"]]["t"]["k"] != "unreachable"
        rep.check(not wildcard and len(t["v"]) >= 63, "C08-R4", b.def_, "no-wildcard", "Message::%s must name all kinds without wildcard (%d named)" % (meth, len(t["v"])), detail={})
        bad = []
        if meth == "kind":
            for i in sorted(b.live_blocks()):
                for st in b.blocks[i]["s"]:
                    if st["d"] == [0] and st["r"]["k"] == "agg":
                        labs = b.edge_labels_reaching(u, i)
                        if labs != {st["r"]["variant"]}:
                            bad.append((sorted(labs), st["r"]["variant"]))
        else:
            for c in b.calls:
                if c.name == meth and (c.trait or "").endswith("::MessageOps"):
                    ty = (c.self_ty or "").split("::")[-1]
                    labs = b.edge_labels_reaching(u, c.bb)
                    if labs != {ty}:
                        bad.append((sorted(labs), ty))
            if meth == "deserialize_message":
                for c in b.calls:
                    if c.name == "map" and len(c.args) > 1:
                        k = mir.op_const(c.args[1])
                        m2 = re.search(r"message::Message::(\w+)$", (k or {}).get("fn", {}).get("full", "") if k else "")
                        if m2:
                            labs = b.edge_labels_reaching(u, c.bb)
                            if labs != {m2.group(1)}:
                                bad.append((sorted(labs), "wrap:" + m2.group(1)))
        rep.check(not bad, "C08-R4", b.def_, "arm-delegates-to-own-type", "Message::%s: arm and delegate disagree: %s" % (meth, bad[:4]), detail={"mismatches": bad[:8]})
    froms = 0
    for imp in prog.impls:
        if imp["crate"] == "aldrin_core" and (imp.get("trait") or "") == "std::convert::From" and imp["self"].endswith("message::Message"):
            for it in imp["items"]:
                b = prog.body(it["def"])
                if b is None:
                    continue
                src = b.locals[1]["ty"].split("::")[-1]
                for i in sorted(b.live_blocks()):
                    for st in b.blocks[i]["s"]:
                        if st["d"] == [0] and st["r"]["k"] == "agg" and st["r"].get("adt", "").endswith("message::Message"):
                            froms += 1
                            rep.check(st["r"]["variant"] == src, "C08-R4", b.def_, "from-wraps-own-variant", "From<%s> for Message wraps into Message::%s" % (src, st["r"]["variant"]), detail={})
    rep.floor("C08-R4", "From<X> for Message impls", froms, 63)


def reader_variant_map(prog, body):
    """discriminant 'Enum::Variant' -> set of data variants constructed on that edge"""
    out = {}
    sws = []
    for u in sorted(body.live_blocks()):
        if body.blocks[u]["t"]["k"] != "switch":
            continue
        g = body.switch_guard(u)
        if not g or g.get("kind") != "variant":
            continue
        srcs = [body.call_at(o[1]) for o in body.origins(["c", g["place"]], depth=10) if o[0] == "call"]
        if any(c is not None and c.name == "try_get_discriminant_u8" for c in srcs):
            sws.append((u, (g.get("adt") or "?").split("::")[-1]))
    for i in sorted(body.live_blocks()):
        cand = []
        for st in body.blocks[i]["s"]:
            r = st["r"]
            if r["k"] == "agg" and r.get("ak") == "adt":
                short = r["adt"].split("::")[-1]
                a = prog.adt(r["adt"])
                if (a is not None and a["kind"] == "Enum" and "Error" not in short) or short == "Option":
                    cand.append(r["variant"])
        t = body.blocks[i]["t"]
        if t["k"] == "call":
            c = body.call_at(i)
            if c is not None and c.name == "map" and len(c.args) > 1:
                k = mir.op_const(c.args[1])
                full = (k or {}).get("fn", {}).get("full", "") if k else ""
                if full.endswith("::Some") and "option::Option" in full:
                    cand.append("Some")
        if not cand:
            continue
        for (u, enum) in sws:
            labs = body.edge_labels_reaching(u, i)
            if len(labs) == 1:
                for v in cand:
                    out.setdefault("%s::%s" % (enum, list(labs)[0]), set()).add(v)
    return out
