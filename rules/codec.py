"""Shared codec facts for C01 / C07 / C13: classification of call sites in aldrin_core's value
codec into wire tokens, sibling tables, helpers."""
import re

import mir
import sig

CORE = "aldrin_core"

# modules of aldrin_core whose local helper calls are expanded (inlined) when computing signatures
CODEC_MODULES = (
    "aldrin_core::buf_ext::", "aldrin_core::deserializer::", "aldrin_core::serializer::", "aldrin_core::convert_value::",
    "aldrin_core::tags::key_impl::",
)

KEY_TAGS = ["U8", "I8", "U16", "I16", "U32", "I32", "U64", "I64", "String", "Uuid"]
KEY_WIDTH = {"U8": ("b", 1), "I8": ("b", 1), "U16": ("varint", 2), "I16": ("varint", 2), "U32": ("varint", 4), "I32": ("varint", 4),
             "U64": ("varint", 8), "I64": ("varint", 8), "Uuid": ("b", 16)}


def is_walker_new(c):
    d = c.callee or ""
    return bool(re.search(r"(deserializer::Deserializer|serializer::Serializer|convert_value::Convert)(::<[^>]*>)?::new$", d))


def is_child(c):
    d = c.callee or ""
    if re.search(r"deserializer::Deserializer(::<[^>]*>)?::(skip|deserialize)$", d):
        return True
    if re.search(r"serializer::Serializer(::<[^>]*>)?::serialize$", d):
        return True
    if re.search(r"convert_value::Convert(::<[^>]*>)?::convert$", d):
        return True
    if d in ("aldrin_core::deserialize::Deserialize::deserialize", "aldrin_core::serialize::Serialize::serialize"):
        return True
    return False


def depth_class(body, operand):
    """how the depth argument of a nested walker is derived"""
    outs = set()
    for o in body.origins(operand, depth=8):
        if o[0] == "param":
            outs.add("depth" if any(e == ".depth" for e in o[2]) or (body.local_name(o[1]) == "depth") else "param?")
        elif o[0] == "bin":
            s = body.blocks[o[1]]["s"][o[2]]["r"]
            outs.add("depth%s" % {"Sub": "-1", "Add": "+1", "SubWithOverflow": "-1", "AddWithOverflow": "+1"}.get(s["op"], "?" + s["op"]))
        elif o[0] == "const":
            m = re.match(r"(?:const )?(\d+)", o[1] or "")
            outs.add(m.group(1) if m else "const?")
        elif o[0] == "agg":
            # checked arithmetic: (value, overflow) tuple from a `bin` with overflow
            outs.add("depth?agg")
        else:
            outs.add("?")
    return "|".join(sorted(outs)) or "?"


def key_tag_of(c):
    st = c.self_ty or ""
    m = re.search(r"tags::(\w+)$", st)
    if m:
        return m.group(1)
    if "as aldrin_core::tags::KeyTag>::Impl" in st or st in ("K", "K::Impl"):
        return "K"
    return st


def codec_classify(c):
    """call -> list of tokens | 'EXPAND' | None"""
    if c.callee is None:
        # indirect call (a closure parameter `f()`): visible as a callback token
        return [("CALLBACK",)]
    t = sig.leaf_token(c)
    if t is not None:
        return [t]
    d = c.callee
    if is_walker_new(c):
        nargs = len(c.args)
        depth_arg = c.args[-1]
        return [("NEW", depth_class(c.body, depth_arg))]
    if c.name == "increment_depth" and any(d.startswith(m) for m in CODEC_MODULES):
        return [("DEPTH+1",)]
    if is_child(c):
        return [("CHILD",)]
    if (c.trait or "").endswith("key_impl::KeyTagImpl") or d.startswith("aldrin_core::tags::key_impl::KeyTagImpl::"):
        return [("KEY", key_tag_of(c), c.name)]
    if any(d.startswith(m) for m in CODEC_MODULES) or any((c.resolved or "").startswith(m) for m in CODEC_MODULES) or re.match(r"^<aldrin_core::(deserializer|serializer|convert_value)", d):
        return "EXPAND"
    return None


def tokens_read(tokens, roles=("src",)):
    return tuple(t for t in tokens if not (t[0] in ("PUT", "GET", "SKIP", "KIND") and t[-1] not in roles and not (len(t) > 4 and t[3] in roles)))


def only_roles(tokens, roles):
    """keep buffer tokens whose role is in `roles`; keep non-buffer tokens"""
    out = []
    for t in tokens:
        if t[0] in ("PUT", "GET", "SKIP"):
            role = t[3]
            if role in roles:
                out.append(t)
        elif t[0] == "KIND":
            if t[3] in roles:
                out.append(t)
        else:
            out.append(t)
    return tuple(out)


def strip(tokens, kinds=("CALLBACK",)):
    return tuple(t for t in tokens if t[0] not in kinds)


# ----------------------------------------------------------------------------------------------
# per-kind dispatch tables of the walkers (C01-R1, C07-R1, C13-R1)
# ----------------------------------------------------------------------------------------------

L2_CTOR = re.compile(r"(deserializer|serializer)::\w+::(\w+[12](?:Deserializer|Serializer)|EnumDeserializer)(::<.*>)?::(new|new_without_value_kind)$")


def tag_of_gargs(gargs):
    """key tag among the generic arguments (first one, as in `deserialize_map1_extend_new::<tags::U8, …>`)"""
    for a in [g for g in gargs if not g.startswith("'")][:1]:
        m = re.match(r"^aldrin_core::tags::(\w+)$", a)
        if m and m.group(1) in KEY_TAGS:
            return m.group(1)
    return None


def make_dispatch_classify(prog, top_def):
    """classifier for dispatch functions: stops at the first L2 constructor (CTOR token),
    records the key tag of the top-level call (TAG token), resolves `deserialize::<T, U>` /
    `serialize::<T>` on concrete aldrin_core::value types to their impl bodies"""

    def classify(c):
        d = c.callee or ""
        m = L2_CTOR.search(d)
        if m:
            return [("CTOR", m.group(2), tag_of_gargs(c.gargs) or ("K" if any(g in ("K", "K::Impl") for g in c.gargs) else None), m.group(4))]
        if c.body.def_ == top_def:
            tag = tag_of_gargs(c.gargs)
            if re.search(r"deserializer::Deserializer(::<[^>]*>)?::deserialize$", d) and len(c.gargs) >= 2:
                u = c.gargs[-1]
                t = c.gargs[-2]
                mb = re.match(r"^std::boxed::Box<(.*)>$", u)
                if mb:  # forwarding impl `Deserialize<T> for Box<U>` strips one type constructor
                    u = mb.group(1)
                cand = "<%s as aldrin_core::deserialize::Deserialize<%s>>::deserialize" % (u, t)
                if prog.body(cand) is not None:
                    return ("EXPAND_DEF", cand, [("VIA", u.split("::")[-1])])
            if re.search(r"serializer::Serializer(::<[^>]*>)?::serialize$", d) and len(c.gargs) >= 1:
                pass
            base = codec_classify(c)
            if tag is not None and base == "EXPAND":
                return ("EXPAND_WITH", [("TAG", tag)])
            return base
        return codec_classify(c)

    return classify


def merge_fixed(tokens):
    """normalise and merge adjacent constant-width byte tokens: X(b,16) X(b,16) == X(b,32)"""
    out = []
    for t in sig.normalise(tokens):
        if t[0] == "X" and t[1] == "b" and isinstance(t[2], int) and out and out[-1][0] == "X" and out[-1][1] == "b" and isinstance(out[-1][2], int):
            out[-1] = ("X", "b", out[-1][2] + t[2])
        else:
            out.append(t)
    return tuple(out)


def dispatch_table(prog, body, expand_depth=7):
    """kind -> list of token tuples (tokens after the dispatching label), for a walker that reads
    or peeks a ValueKind and branches on it"""
    S = sig.Sig(prog, make_dispatch_classify(prog, body.def_), expand_depth=expand_depth)
    S.stop_after = ("CTOR",)
    table = {}
    for toks in S.tokens(body):
        # find the dispatching label: first '@' token
        idx = None
        for i, t in enumerate(toks):
            if t[0] == "@":
                idx = i
                break
        if idx is None:
            continue
        kind = toks[idx][1]
        rest = toks[idx + 1:]
        # the same byte cannot be two kinds: drop paths whose inner re-dispatch disagrees
        bad = False
        for t in rest:
            if t[0] == "@" and t[1] != kind:
                bad = True
        if bad:
            continue
        table.setdefault(kind, [])
        if rest not in table[kind]:
            table[kind].append(rest)
    return table, S


def descriptor(rest):
    """(family, tag) of the first L2 constructor on the path, or the merged leaf tokens"""
    tag = None
    for t in rest:
        if t[0] == "TAG":
            tag = t[1]
        if t[0] == "CTOR":
            return ("ctor", t[1], t[2] if t[2] not in (None, "K") else tag)
    leaf = tuple(t for t in merge_fixed(tuple(x for x in rest if x[0] not in ("TAG", "VIA", "@"))) if t[0] != "K")
    return ("leaf",) + leaf
