"""C07 — decoding untrusted bytes is total; skipping agrees with decoding (structural clauses)."""
import os
import re
import tomllib

import bounds
import codec
import engine
import mir
import sig

RANK = {"none": 0, "weak": 1, "strong": 2}

EXPLANATION = (
    "Static cross-check of the sibling walkers of aldrin_core's value codec, on rustc's MIR of the real build. "
    "Decided: (R1) Deserializer::skip and Value::deserialize dispatch every ValueKind to the same L2 reader and key tag, "
    "or to primitive reads of the same widths; (R2) for each of the 10 key tags serialize_key / deserialize_key / skip / convert "
    "agree on the key's wire shape (const-generic varint widths, byte counts), the element decoders and element skippers of every "
    "container reader produce identical token sequences on every success path, whole-container skip is a repetition of element skip, "
    "and nested walkers receive `depth` (only Deserializer::len re-enters with depth-1); (R3) every raw, panicking buffer access in the "
    "decode-side modules is dominated by the passing edge of a length comparison on the same quantity (or is a frozen, reasoned exception); "
    "(R4) no allocation in those modules is sized by a non-constant value; (R5) kind peeking goes through the bounds-checked primitive. "
    "Not decided: absence of panics inside bytes/uuid/std, total memory as a number, UTF-8 handling (tolerated difference)."
)


def in_modules(d, mods):
    return any(d.startswith(m) for m in mods) and "::test" not in d


def key_shapes(rep, prog, S, rule="C07-R2", only=None):
    """serialize_key / deserialize_key / skip / convert of every key tag agree on the key's wire shape (only: restrict the compared siblings)"""
    # ---- R2a: key tags ----------------------------------------------------------------------
    impls = [i for i in prog.impls if (i.get("trait") or "").endswith("key_impl::KeyTagImpl") and i["crate"] == "aldrin_core"]
    rep.floor(rule, "KeyTagImpl impls", len(impls), 10)
    for imp in impls:
        tag = imp["self"].split("::")[-1]
        fns = {it["name"]: prog.body(it["def"]) for it in imp["items"] if it["kind"] == "fn"}
        shapes = {}
        for nm in ("serialize_key", "deserialize_key", "skip", "convert"):
            b = fns.get(nm)
            if b is None:
                rep.fail(rule, imp["def"], "key:%s:%s" % (tag, nm), "function body not found")
                continue
            toks = S.tokens(b)
            if nm == "convert":
                shapes["convert(read)"] = set(codec.merge_fixed(codec.only_roles(t, ("src",))) for t in toks)
                shapes["convert(write)"] = set(codec.merge_fixed(codec.only_roles(t, ("dst",))) for t in toks)
            else:
                shapes[nm] = set(codec.merge_fixed(t) for t in toks)
        ref = shapes.get("deserialize_key")
        for nm, sh in shapes.items():
            if nm == "deserialize_key" or (only and not nm.startswith(only)):
                continue
            b = fns.get(nm.split("(")[0])
            rep.check(sh == ref, rule, b.def_ if b else imp["def"], "key-shape<-deserialize_key",
                      "key tag %s: %s has wire shape {%s} but deserialize_key has {%s}" % (tag, nm, "; ".join(sig.fmt(x) for x in sh), "; ".join(sig.fmt(x) for x in (ref or []))),
                      line=b.span if b else None,
                      detail={"tag": tag, "fn": nm, "shape": [sig.fmt(x) for x in sh], "reference": [sig.fmt(x) for x in (ref or [])]})
        # expected width of the key type itself (independent of the siblings)
        if tag in codec.KEY_WIDTH and ref is not None:
            cls, w = codec.KEY_WIDTH[tag]
            want = {(("X", cls, w),)}
            rep.check(ref == want, rule, fns["deserialize_key"].def_, "key-width", "key tag %s decodes {%s}, expected %s<%s>" % (tag, "; ".join(sig.fmt(x) for x in ref), cls, w),
                      detail={"tag": tag, "shape": [sig.fmt(x) for x in ref]})




def run(rep):
    rep.explanation = EXPLANATION
    rep.trusted = ["rustc nightly MIR construction and type checking", "cargo feature resolution", "bytes::Buf contract (chunk() non-empty when remaining() > 0)",
                   "tables/c07.toml (frozen sibling pairings and reasoned exceptions)"]
    rep.assumptions = ["KeyTagImpl is sealed (witness W1): the 10 impls are the whole set", "UTF-8 validation is the one tolerated difference between skip and decode"]
    fdir = engine.ensure_facts(engine.config_for("C07"))
    prog = mir.Program(fdir, crates=["aldrin_core"])
    tab = tomllib.load(open(os.path.join(engine.VERIF, "tables", "c07.toml"), "rb"))
    S = sig.Sig(prog, codec.codec_classify)

    key_shapes(rep, prog, S)

    # ---- R2b: element siblings --------------------------------------------------------------
    n_groups = 0
    for grp in tab["siblings"]:
        bodies = [prog.body(f) for f in grp["fns"]]
        if any(b is None for b in bodies):
            missing = [f for f, b in zip(grp["fns"], bodies) if b is None]
            rep.fail("C07-R2", missing[0], "siblings:%s" % grp["name"], "sibling function not found (renamed or removed): table tables/c07.toml must be re-confirmed")
            continue
        n_groups += 1
        strip = tuple(grp.get("strip", []))
        sets = []
        for b in bodies:
            ts = set()
            for t in S.tokens(b):
                t = codec.strip(t, strip) if strip else t
                # decode and skip of a key are the same wire event
                t = tuple((("KEY", x[1]) if x[0] == "KEY" else x) for x in t)
                ts.add(codec.merge_fixed(t))
            sets.append(ts)
        for b, ts in zip(bodies[1:], sets[1:]):
            rep.check(ts == sets[0], "C07-R2", b.def_, "siblings:%s" % grp["name"],
                      "%s consumes {%s} but its sibling %s consumes {%s}" % (b.def_.split("::")[-1], " | ".join(sorted(sig.fmt(x) for x in ts)), bodies[0].def_.split("::")[-1], " | ".join(sorted(sig.fmt(x) for x in sets[0]))),
                      line=b.span, detail={"group": grp["name"], "paths": sorted(sig.fmt(x) for x in ts)})
    rep.floor("C07-R2", "sibling groups", n_groups, 13)

    # ---- R2c: whole-container skip = element* -----------------------------------------------
    n_rep = 0
    for r in tab["repeat"]:
        whole = prog.body(r["whole"])
        elems = [prog.body(e) for e in r["element"]]
        if whole is None or any(e is None for e in elems):
            rep.fail("C07-R2", r["whole"], "repeat", "function of the repeat table not found")
            continue
        n_rep += 1
        E = set()
        for e in elems:
            for t in S.tokens(e):
                t = codec.merge_fixed(t)
                if t:
                    E.add(t)
        for t in S.tokens(whole):
            t = codec.merge_fixed(t)
            ok = in_star(t, E)
            rep.check(ok, "C07-R2", whole.def_, "repeat:%s" % sig.fmt(t)[:60], "whole-container skip consumes %s which is not a repetition of its element skipper's paths" % sig.fmt(t), line=whole.span,
                      detail={"path": sig.fmt(t), "element_paths": sorted(sig.fmt(x) for x in E)})
    rep.floor("C07-R2", "repeat entries", n_rep, 8)

    # ---- R2d: depth arguments ----------------------------------------------------------------
    n_new = 0
    for d, b in prog.bodies.items():
        if not (d.startswith("aldrin_core::deserializer::") and "::test" not in d):
            continue
        for c in b.calls:
            if codec.is_walker_new(c) and "deserializer::Deserializer" in c.callee:
                n_new += 1
                cls = codec.depth_class(b, c.args[-1])
                want = "depth-1" if b.name == "len" and "deserializer::Deserializer" in d else "depth"
                rep.check(cls == want, "C07-R2", d, "depth-arg", "nested Deserializer::new receives `%s`, expected `%s`" % (cls, want), line=c.line, detail={"depth": cls})
    rep.floor("C07-R2", "Deserializer::new sites in readers", n_new, 14)

    # ---- R1: dispatch skip ≡ decode ------------------------------------------------------------
    skip_b = prog.one(r"^aldrin_core::deserializer::Deserializer::<'a, 'b>::skip$")
    dec_b = prog.one(r"^<aldrin_core::value::Value as aldrin_core::deserialize::Deserialize<aldrin_core::tags::Value>>::deserialize$")
    st, _ = codec.dispatch_table(prog, skip_b)
    dt, _ = codec.dispatch_table(prog, dec_b)
    kinds = prog.adt("aldrin_core::value_kind::ValueKind")
    knames = [v["name"] for v in kinds["variants"]] if kinds else []
    rep.floor("C07-R1", "ValueKind variants", len(knames), 66)
    for k in knames:
        sd = set(codec.descriptor(r) for r in st.get(k, []))
        dd = set(codec.descriptor(r) for r in dt.get(k, []))
        ok = bool(sd) and sd == dd
        rep.check(ok, "C07-R1", skip_b.def_, "kind:%s" % k, "skip handles %s as %s but the typed decoder as %s" % (k, sorted(sd), sorted(dd)), line=skip_b.span,
                  detail={"kind": k, "skip": sorted(map(str, sd)), "decode": sorted(map(str, dd))})
    rep.exhaustive["C07-R1"] = True

    # ---- R3 / R4: bounds discipline, allocations ----------------------------------------------
    mods = tab["decode_modules"]
    site_tab = {s["key"]: s for s in tab.get("site", [])}
    alloc_tab = {s["key"]: s for s in tab.get("alloc", [])}
    n_sites = 0
    n_alloc = 0
    for d, b in sorted(prog.bodies.items()):
        if not in_modules(d, mods):
            continue
        if "arbitrary::Arbitrary" in d:
            continue
        for s in bounds.raw_sites(b):
            n_sites += 1
            lvl, why = bounds.guard_level(s)
            ent = site_tab.get(s.key())
            minimum = ent["min"] if ent else "strong"
            rep.check(RANK[lvl] >= RANK[minimum], "C07-R3", d, s.kind,
                      "raw buffer access `%s` has guard level %s, required %s%s" % (s.kind, lvl, minimum, "" if ent else " (site not in tables/c07.toml: a new raw access must be dominated by a length check on the same quantity)"),
                      line=s.line, detail={"level": lvl, "guard": why, "required": minimum})
        for s in bounds.alloc_sites(b):
            n_alloc += 1
            n = sig.const_int(b, s.need) if s.need is not None else None
            ok = n is not None or s.key() in alloc_tab
            if not ok:
                lvl, why = bounds.guard_level(s)
                ok = lvl == "strong"
            rep.check(ok, "C07-R4", d, s.kind, "allocation sized by a non-constant value in a decode path", line=s.line, detail={"const": n})
    rep.floor("C07-R3", "raw access sites", n_sites, 15)
    # positive control: the rule must recognise a known unguarded-looking site as non-strong
    ctl = prog.one(r"^aldrin_core::deserializer::Deserializer::<'a, 'b>::split_off_serialized_value$")
    ctl_sites = bounds.raw_sites(ctl)
    rep.check(len(ctl_sites) >= 2 and all(bounds.guard_level(s)[0] == "none" for s in ctl_sites), "C07-R3", ctl.def_, "positive-control",
              "positive control failed: split_off_serialized_value's cross-function sites were not recognised as locally unguarded", detail={"sites": len(ctl_sites)})

    # ---- R5: kind peek ------------------------------------------------------------------------
    for rx in (r"^aldrin_core::serialized_value::SerializedValueSlice::kind$", r"^aldrin_core::deserializer::Deserializer::<'a, 'b>::peek_value_kind$"):
        b = prog.one(rx)
        toks = [t for ts in S.tokens(b) for t in ts]
        ok = any(t[0] == "KIND" and t[1] == "peek" for t in toks) and not bounds.raw_sites(b)
        rep.check(ok, "C07-R5", b.def_, "peek", "kind is not read through the bounds-checked peek primitive", line=b.span, detail={"tokens": [sig.fmt(ts) for ts in S.tokens(b)]})

    rep.analysed["bodies_loaded"] = len(prog.bodies)


def in_star(seq, E):
    """is seq a concatenation of members of E?"""
    n = len(seq)
    ok = [False] * (n + 1)
    ok[0] = True
    for i in range(n):
        if not ok[i]:
            continue
        for e in E:
            if seq[i:i + len(e)] == e:
                ok[i + len(e)] = True
    return ok[n]
