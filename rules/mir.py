"""Program facts (from the rustc_private driver) and the shared analysis primitives.

Everything here works on resolved program facts (MIR built by rustc for the real build
configuration); no source text is inspected and no aldrin code is executed.
"""
import json
import os
import re
from collections import defaultdict

# ----------------------------------------------------------------------------------------------
# loading
# ----------------------------------------------------------------------------------------------


class Program:
    """All facts of one extraction (one cargo invocation)."""

    def __init__(self, facts_dir, crates=None, include_tests=False, prefer=None):
        """crates: iterable of crate names to load (None = all).
        For a crate compiled several times (feature unification for host/target) the variant with
        the largest feature set is taken; `prefer` may map crate -> required feature subset."""
        self.dir = facts_dir
        self.units = []  # loaded json dicts
        by_crate = defaultdict(list)
        for fn in sorted(os.listdir(facts_dir)):
            if not fn.endswith(".json"):
                continue
            m = re.match(r"(.+?)(-test)?-([0-9a-f]+)\.json$", fn)
            if not m:
                continue
            crate, is_test = m.group(1), bool(m.group(2))
            if crates is not None and crate not in crates:
                continue
            if is_test and not include_tests:
                continue
            by_crate[(crate, is_test)].append(fn)
        self.files = []
        for (crate, is_test), fns in sorted(by_crate.items()):
            best = None
            for fn in fns:
                # read only the header cheaply
                with open(os.path.join(facts_dir, fn), "r") as f:
                    head = f.read(4096)
                m = re.search(r'"features":\[(.*?)\]', head)
                feats = set(re.findall(r'"([^"]+)"', m.group(1))) if m else set()
                key = (len(feats), fn)
                if best is None or key > best[0]:
                    best = (key, fn, feats)
            self.files.append(best[1])
        self.bodies = {}
        self.adts = {}
        self.impls = []
        self.traits = {}
        self.features = {}
        for fn in self.files:
            with open(os.path.join(facts_dir, fn), "r") as f:
                unit = json.load(f)
            crate = unit["crate"] + ("#test" if unit["is_test"] else "")
            self.features[crate] = unit["features"]
            for a in unit["adts"]:
                a["crate"] = crate
                self.adts.setdefault(a["def"], a)
            for i in unit["impls"]:
                i["crate"] = crate
                self.impls.append(i)
            for t in unit["traits"]:
                self.traits.setdefault(t["def"], t)
            for b in unit["bodies"]:
                body = Body(b, crate, self)
                # test units re-compile the lib's bodies; keep the non-test one
                if body.def_ in self.bodies and unit["is_test"]:
                    continue
                self.bodies[body.def_] = body
        self._by_name = None

    # -- lookup helpers ---------------------------------------------------------------------
    def body(self, def_):
        return self.bodies.get(def_)

    def find(self, pattern, crate=None):
        """bodies whose def path matches regex `pattern` (search)."""
        rx = re.compile(pattern)
        out = []
        for d, b in self.bodies.items():
            if crate and b.crate != crate:
                continue
            if rx.search(d):
                out.append(b)
        return out

    def one(self, pattern, crate=None):
        r = self.find(pattern, crate)
        if len(r) != 1:
            raise LookupError("expected exactly one body matching %r, got %d: %s" % (pattern, len(r), [b.def_ for b in r][:8]))
        return r[0]

    def closures_of(self, root_def):
        return [b for b in self.bodies.values() if b.root == root_def and b.def_ != root_def]

    def impls_of_trait(self, trait_def):
        return [i for i in self.impls if i.get("trait") == trait_def]

    def adt(self, def_):
        return self.adts.get(def_)


# ----------------------------------------------------------------------------------------------
# operands / places
# ----------------------------------------------------------------------------------------------


def place_local(p):
    return p[0]


def place_proj(p):
    return p[1:]


def op_place(o):
    """place of a copy/move operand, else None"""
    if o[0] in ("c", "m"):
        return o[1]
    return None


def op_const(o):
    if o[0] == "k":
        return o[1]
    return None


def fmt_place(p, body=None):
    s = "_%d" % p[0]
    if body is not None:
        n = body.locals[p[0]].get("name")
        if n:
            s = "%s(_%d)" % (n, p[0])
    for e in p[1:]:
        if e == "*":
            s = "(*%s)" % s
        else:
            s += e
    return s


def fmt_op(o, body=None):
    if o[0] in ("c", "m"):
        return ("move " if o[0] == "m" else "") + fmt_place(o[1], body)
    if o[0] == "k":
        k = o[1]
        if "fn" in k:
            return "fn " + k["fn"]["full"]
        return "const " + k["repr"]
    return "?"


def fmt_rvalue(r, body=None):
    k = r["k"]
    if k == "use":
        return fmt_op(r["o"][0], body)
    if k == "ref":
        return "&%s%s" % ("mut " if r["m"] == "mut" else "", fmt_place(r["p"], body))
    if k == "rawptr":
        return "&raw " + fmt_place(r["p"], body)
    if k == "cast":
        return "%s as %s (%s)" % (fmt_op(r["o"][0], body), r["ty"], r["ck"])
    if k == "bin":
        return "%s(%s, %s)" % (r["op"], fmt_op(r["o"][0], body), fmt_op(r["o"][1], body))
    if k == "un":
        return "%s(%s)" % (r["op"], fmt_op(r["o"][0], body))
    if k == "discr":
        return "discriminant(%s)" % fmt_place(r["p"], body)
    if k == "agg":
        ak = r["ak"]
        ops = ", ".join(fmt_op(o, body) for o in r["o"])
        if ak == "adt":
            names = r.get("fields", [])
            if len(names) == len(r["o"]):
                ops = ", ".join("%s: %s" % (n, fmt_op(o, body)) for n, o in zip(names, r["o"]))
            return "%s::%s { %s }" % (r["adt"], r["variant"], ops)
        if ak in ("closure", "coroutine", "coroutine_closure"):
            return "%s %s [%s]" % (ak, r["def"], ops)
        return "%s(%s)" % (ak, ops)
    if k == "repeat":
        return "[%s; %s]" % (fmt_op(r["o"][0], body), r["n"])
    if k == "setdiscr":
        return "setdiscr %s" % r["v"]
    return k


# ----------------------------------------------------------------------------------------------
# bodies
# ----------------------------------------------------------------------------------------------


class Call:
    __slots__ = ("body", "bb", "term", "f", "callee", "resolved", "name", "args", "dest", "target", "line", "macro", "trait", "self_ty", "gargs", "full", "self_adt", "impl_trait")

    def __init__(self, body, bb, term):
        self.body = body
        self.bb = bb
        self.term = term
        f = term.get("f")
        self.f = f
        if f:
            self.callee = f["def"]
            self.resolved = f.get("resolved") or f["def"]
            self.name = f.get("name")
            self.trait = f.get("trait") or f.get("impl_trait")
            self.impl_trait = f.get("impl_trait")
            self.self_ty = f.get("self_ty") or f.get("impl_self")
            self.self_adt = f.get("self_adt")
            self.gargs = f.get("args", [])
            self.full = f.get("full")
        else:
            self.callee = None
            self.resolved = None
            self.name = None
            self.trait = None
            self.impl_trait = None
            self.self_ty = None
            self.self_adt = None
            self.gargs = []
            self.full = None
        self.args = term["a"]
        self.dest = term["d"]
        self.target = term["t"]
        self.line = term.get("fl") or term.get("l")
        self.macro = term.get("x")

    def is_(self, *names):
        """callee (declared or resolved) ends with one of the given path suffixes"""
        for n in names:
            for c in (self.callee, self.resolved):
                if c and (c == n or c.endswith("::" + n) or c.endswith(n)):
                    return True
        return False

    def __repr__(self):
        return "<call %s @bb%d %s>" % (self.full or "?", self.bb, self.line)


class Body:
    def __init__(self, raw, crate, prog):
        self.raw = raw
        self.prog = prog
        self.crate = crate
        self.def_ = raw["def"]
        self.kind = raw["kind"]
        self.name = raw.get("name")
        self.span = raw["span"]
        self.exp = raw.get("exp")
        self.root = raw.get("root", raw["def"])
        self.coroutine = raw.get("coroutine", False)
        self.argc = raw["argc"]
        self.locals = raw["locals"]
        self.blocks = raw["blocks"]
        self.impl_self = raw.get("impl_self")
        self.impl_trait = raw.get("impl_trait")
        self.self_adt = raw.get("self_adt")
        self.is_pub = raw.get("pub")
        self.is_async = raw.get("async")
        self.upvars = raw.get("upvars", [])
        self.generics = raw.get("generics", [])
        self._succ = None
        self._pred = None
        self._calls = None
        self._defs = None
        self._reach = None
        self._dom_cache = {}
        self._idom = None

    def __repr__(self):
        return "<body %s>" % self.def_

    # -- CFG (normal control flow only: no unwind edges, no imaginary edges) ---------------
    def _build_cfg(self):
        succ = []
        for i, b in enumerate(self.blocks):
            t = b["t"]
            k = t["k"]
            out = []
            if k == "goto":
                out.append((t["t"], None))
            elif k == "switch":
                kc = op_const(t["d"])
                if kc is None:
                    pd = op_place(t["d"])
                    if pd is not None and len(pd) == 1:
                        for st in b["s"]:
                            if st["d"] == [pd[0]]:
                                kc = op_const(st["r"]["o"][0]) if st["r"]["k"] == "use" else None
                if kc is not None and kc.get("int") is None and kc.get("repr") in ("true", "false"):
                    kc = dict(kc, int="1" if kc["repr"] == "true" else "0")
                if kc is not None and kc.get("int") is not None:
                    # switch on a literal (`cfg!(debug_assertions)` in the analysed dev profile):
                    # only the matching edge exists
                    hit = [bb for v, bb in t["v"] if v == kc["int"]]
                    out.append((hit[0], kc["int"]) if hit else (t["o"], "otherwise"))
                else:
                    for v, bb in t["v"]:
                        out.append((bb, v))
                    out.append((t["o"], "otherwise"))
            elif k in ("drop", "assert", "false_edge", "false_unwind"):
                out.append((t["t"], None))
            elif k == "call":
                if t["t"] is not None:
                    out.append((t["t"], None))
            elif k == "yield":
                out.append((t["t"], None))
                # the `drop` edge models cancellation of the future at this await point
                # and is not normal control flow
            succ.append(out)
        self._succ = succ
        pred = [[] for _ in self.blocks]
        for i, outs in enumerate(succ):
            for (t, _l) in outs:
                pred[t].append(i)
        self._pred = pred

    def succ(self, b):
        if self._succ is None:
            self._build_cfg()
        return [t for (t, _l) in self._succ[b]]

    def succ_labeled(self, b):
        if self._succ is None:
            self._build_cfg()
        return self._succ[b]

    def pred(self, b):
        if self._pred is None:
            self._build_cfg()
        return self._pred[b]

    def reachable(self, start=0, without_nodes=(), without_edges=()):
        """set of blocks reachable from start in the normal CFG"""
        if self._succ is None:
            self._build_cfg()
        wn = set(without_nodes)
        we = set(without_edges)
        if start in wn:
            return set()
        seen = {start}
        stack = [start]
        while stack:
            u = stack.pop()
            for v in self.succ(u):
                if v in wn or (u, v) in we or v in seen:
                    continue
                seen.add(v)
                stack.append(v)
        return seen

    def live_blocks(self):
        if self._reach is None:
            self._reach = self.reachable(0)
        return self._reach

    def dominates(self, a, b):
        """every path entry->b passes through block a (a == b counts)"""
        if a == b:
            return True
        key = ("n", a)
        r = self._dom_cache.get(key)
        if r is None:
            r = self.reachable(0, without_nodes=(a,))
            self._dom_cache[key] = r
        return b in self.live_blocks() and b not in r

    def edge_dominates(self, u, v, b):
        """every path entry->b passes through edge u->v"""
        key = ("e", u, v)
        r = self._dom_cache.get(key)
        if r is None:
            r = self.reachable(0, without_edges=((u, v),))
            self._dom_cache[key] = r
        return b in self.live_blocks() and b not in r

    def reaches(self, a, b):
        """b reachable from a (a != b requires at least one edge; a == b true)"""
        if a == b:
            return True
        return b in self.reachable(a)

    def exits(self):
        """blocks ending in return (normal exits)"""
        return [i for i in self.live_blocks() if self.blocks[i]["t"]["k"] == "ret"]

    def postdominates(self, a, b):
        """every path from b to a normal exit passes through a"""
        if a == b:
            return True
        # b can reach an exit without a?
        seen = self.reachable(b, without_nodes=(a,))
        for e in self.exits():
            if e in seen:
                return False
        # diverging/unreachable ends do not count as exits
        return True

    # -- calls -------------------------------------------------------------------------------
    @property
    def calls(self):
        if self._calls is None:
            self._calls = []
            live = self.live_blocks()
            for i, b in enumerate(self.blocks):
                if b["t"]["k"] == "call" and i in live and not b.get("c"):
                    self._calls.append(Call(self, i, b["t"]))
        return self._calls

    def calls_to(self, *names):
        return [c for c in self.calls if c.is_(*names)]

    def call_at(self, bb):
        t = self.blocks[bb]["t"]
        if t["k"] == "call":
            return Call(self, bb, t)
        return None

    # -- definitions -------------------------------------------------------------------------
    def defs(self):
        """local -> list of ('stmt', bb, idx, stmt) | ('call', bb, Call) | ('yield', bb, term)
        that assign the local (whole or through a projection)."""
        if self._defs is None:
            d = defaultdict(list)
            live = self.live_blocks()
            for i, b in enumerate(self.blocks):
                if i not in live:
                    continue
                for j, s in enumerate(b["s"]):
                    d[s["d"][0]].append(("stmt", i, j, s))
                t = b["t"]
                if t["k"] == "call":
                    d[t["d"][0]].append(("call", i, Call(self, i, t)))
                elif t["k"] == "yield":
                    d[t["d"][0]].append(("yield", i, t))
            self._defs = d
        return self._defs

    def local_ty(self, l):
        return self.locals[l]["ty"]

    def local_name(self, l):
        return self.locals[l].get("name")

    # -- origin slicing (P5) -----------------------------------------------------------------
    def origins(self, operand, depth=12, through=None):
        """Backward, flow-insensitive def-use slice of an operand.

        Returns a set of origin tuples:
          ('param', index, proj-tuple)         value derived from parameter #index (1-based local)
          ('call', bb)                         result of the call terminating block bb
          ('const', repr, def-or-None)         constant
          ('agg', bb, idx)                     aggregate built at statement
          ('upvar', proj)                      closure capture
          ('bin', bb, idx) / ('un', ...)       arithmetic / comparison result
          ('discr', bb, idx)
          ('unknown', why)
        Transparent calls (borrow/deref/clone/into/…) are looked through when `through`
        (a predicate on Call) says so; default: TRANSPARENT.
        """
        if through is None:
            through = is_transparent
        out = set()
        seen = set()

        def visit_place(p, d):
            l = p[0]
            proj = tuple(p[1:])
            key = (l, proj)
            if key in seen:
                return
            seen.add(key)
            if d <= 0:
                out.add(("unknown", "depth"))
                return
            if 1 <= l <= self.argc:
                # closure env (_1 of a closure body) -> upvar
                if self.kind == "Closure" and l == 1:
                    out.add(("upvar", proj))
                else:
                    out.add(("param", l, strip_deref(proj)))
                return
            dl = self.defs().get(l, [])
            if not dl:
                out.add(("unknown", "nodef _%d" % l))
                return
            for ent in dl:
                if ent[0] == "stmt":
                    _, bb, idx, s = ent
                    dproj = tuple(s["d"][1:])
                    # an assignment to a sub-place only matters if it overlaps what we read
                    if dproj and proj and not _overlap(strip_deref(dproj), strip_deref(proj)):
                        continue
                    r = s["r"]
                    k = r["k"]
                    if k == "use":
                        visit_op(r["o"][0], d - 1, extra=_rest(dproj, proj))
                    elif k in ("ref", "rawptr"):
                        visit_place(list(r["p"]) + list(_rest(dproj, proj)), d - 1)
                    elif k == "cast":
                        visit_op(r["o"][0], d - 1)
                    elif k == "agg":
                        # reading a field of an aggregate -> the matching operand
                        rest = _rest(dproj, proj)
                        fld = first_field(rest)
                        if fld is not None and r["ak"] in ("adt", "tuple") :
                            names = r.get("fields") if r["ak"] == "adt" else None
                            idx_ = None
                            if names and fld in names:
                                idx_ = names.index(fld)
                            elif fld.isdigit() and int(fld) < len(r["o"]):
                                idx_ = int(fld)
                            if idx_ is not None and idx_ < len(r["o"]):
                                visit_op(r["o"][idx_], d - 1, extra=after_first_field(rest))
                                continue
                        out.add(("agg", bb, idx))
                    elif k == "bin":
                        out.add(("bin", bb, idx))
                    elif k == "un":
                        out.add(("un", bb, idx))
                    elif k == "discr":
                        out.add(("discr", bb, idx))
                    else:
                        out.add(("unknown", k))
                elif ent[0] == "call":
                    _, bb, c = ent
                    if through(c) and c.args:
                        visit_op(c.args[0], d - 1)
                    else:
                        out.add(("call", bb))
                else:
                    out.add(("unknown", "yield"))

        def visit_op(o, d, extra=()):
            if o[0] in ("c", "m"):
                visit_place(list(o[1]) + list(extra), d)
            elif o[0] == "k":
                k = o[1]
                out.add(("const", k.get("repr"), k.get("def") or (k.get("fn") or {}).get("def")))
            else:
                out.add(("unknown", "operand"))

        visit_op(operand, depth)
        return out

    def origin_calls(self, operand, **kw):
        """Call objects among the origins of operand"""
        return [self.call_at(o[1]) for o in self.origins(operand, **kw) if o[0] == "call"]

    # -- guards (P2) -------------------------------------------------------------------------
    def switch_guard(self, bb):
        """Describe the branch at block bb (a switch): returns dict
        {kind:'variant', place, adt, labels:{value->variant}} |
        {kind:'bool', neg:bool, src: origin-set, call: Call|None, cmp: (op, lhs, rhs)|None} |
        {kind:'int', ...}"""
        t = self.blocks[bb]["t"]
        if t["k"] != "switch":
            return None
        d = t["d"]
        return self._describe_cond(d, t.get("dty"), 6)

    def _describe_cond(self, operand, dty, depth):
        p = op_place(operand)
        if p is None:
            return {"kind": "const", "repr": op_const(operand)}
        l = p[0]
        dl = self.defs().get(l, [])
        if len(p) == 1 and len(dl) == 1:
            ent = dl[0]
            if ent[0] == "stmt":
                s = ent[3]
                r = s["r"]
                if r["k"] == "discr":
                    labels = {v: n for (n, v) in r.get("variants", [])}
                    return {"kind": "variant", "place": r["p"], "adt": r.get("adt"), "labels": labels, "at": (ent[1], ent[2])}
                if r["k"] == "un" and r["op"] == "Not" and depth > 0:
                    inner = self._describe_cond(r["o"][0], dty, depth - 1)
                    if inner and inner.get("kind") == "bool":
                        inner = dict(inner)
                        inner["neg"] = not inner.get("neg", False)
                        return inner
                if r["k"] == "bin":
                    return {"kind": "bool", "neg": False, "cmp": (r["op"], r["o"][0], r["o"][1]), "call": None, "at": (ent[1], ent[2])}
                if r["k"] == "use" and depth > 0:
                    return self._describe_cond(r["o"][0], dty, depth - 1)
            elif ent[0] == "call":
                c = ent[2]
                return {"kind": "bool" if dty == "bool" else "int", "neg": False, "call": c, "cmp": None}
        if dty == "bool":
            return {"kind": "bool", "neg": False, "call": None, "cmp": None, "place": p}
        return {"kind": "int", "place": p}

    def edge_label(self, u, v):
        """semantic label(s) of edge u->v of a switch at u: for 'variant' guards the variant
        name(s); for bool guards True/False (after applying negation)."""
        g = self.switch_guard(u)
        if g is None:
            return None
        labs = [l for (t, l) in self.succ_labeled(u) if t == v]
        res = []
        for lab in labs:
            if g["kind"] == "variant":
                if lab == "otherwise":
                    named = set(x for (_t, x) in self.succ_labeled(u) if x != "otherwise")
                    rest = [n for val, n in g["labels"].items() if val not in named]
                    res.extend(rest if rest else ["otherwise"])
                else:
                    res.append(g["labels"].get(lab, lab))
            elif g["kind"] == "bool":
                val = (lab != "0") if lab != "otherwise" else True
                # switchInt on bool: value 0 -> false, otherwise -> true
                if g.get("neg"):
                    val = not val
                res.append(val)
            else:
                res.append(lab)
        return res

    def dominating_guards(self, b):
        """list of (switch_bb, guard, labels) for every switch whose single out-edge leads to b
        on all paths (edge dominance)."""
        out = []
        for u in self.live_blocks():
            t = self.blocks[u]["t"]
            if t["k"] != "switch":
                continue
            if u == b or not self.dominates(u, b):
                continue
            targets = set(self.succ(u))
            # edges through which b is reachable: b must be unreachable without that edge
            holding = [v for v in targets if self.edge_dominates(u, v, b)]
            if len(holding) == 1:
                v = holding[0]
                out.append((u, self.switch_guard(u), self.edge_label(u, v)))
        return out


def strip_deref(proj):
    return tuple(e for e in proj if e != "*")


def _overlap(a, b):
    n = min(len(a), len(b))
    return a[:n] == b[:n]


def _rest(dproj, proj):
    """if the def wrote place L.dproj and we read L.proj (dproj prefix of proj): remaining proj"""
    dp = strip_deref(dproj)
    pp = list(proj)
    # drop from pp the elements matching dp (ignoring derefs)
    i = 0
    j = 0
    while i < len(dp) and j < len(pp):
        if pp[j] == "*":
            j += 1
            continue
        if pp[j] == dp[i]:
            i += 1
            j += 1
        else:
            break
    if i < len(dp):
        return ()
    return tuple(pp[j:])


def first_field(proj):
    for e in proj:
        if e == "*" or e.startswith("@"):
            continue
        if e.startswith("."):
            return e[1:]
        return None
    return None


def after_first_field(proj):
    for i, e in enumerate(proj):
        if e == "*" or e.startswith("@"):
            continue
        if e.startswith("."):
            return tuple(proj[i + 1:])
        return ()
    return ()


TRANSPARENT_NAMES = {
    "deref", "deref_mut", "clone", "into", "from", "borrow", "borrow_mut", "as_ref", "as_mut", "branch",
    "into_iter", "iter", "copied", "cloned", "to_owned", "unwrap", "expect", "unwrap_or", "into_future",
    "new_unchecked", "get_mut", "as_deref", "by_ref", "as_slice", "as_bytes",
}
TRANSPARENT_TRAITS = (
    "core::ops::Deref", "core::ops::DerefMut", "std::ops::Deref", "std::ops::DerefMut", "core::clone::Clone", "std::clone::Clone",
    "std::convert::Into", "std::convert::From", "core::convert::Into", "core::convert::From",
    "std::ops::Try", "core::ops::Try", "std::iter::IntoIterator", "core::iter::IntoIterator",
    "std::borrow::Borrow", "std::convert::AsRef", "std::convert::AsMut", "std::borrow::ToOwned",
    "std::future::IntoFuture", "core::future::IntoFuture",
)


def is_transparent(c):
    """calls that hand their first argument (or a view of it) through"""
    if c.callee is None:
        return False
    if c.trait and c.trait in TRANSPARENT_TRAITS:
        return True
    d = c.callee
    if d.startswith("std::option::Option") or d.startswith("std::result::Result") or d.startswith("core::option::Option") or d.startswith("core::result::Result"):
        if c.name in ("as_ref", "as_mut", "unwrap", "expect", "copied", "cloned", "as_deref", "ok", "unwrap_or", "unwrap_or_default"):
            return True
    if d.startswith("std::pin::Pin") and c.name in ("new_unchecked", "new", "as_mut", "get_mut", "get_unchecked_mut"):
        return True
    if (d.startswith("std::option::Option") or d.startswith("std::result::Result")) and c.name == "map" and len(c.args) > 1:
        # `.map(Some)` / `.map(Self::Variant)` / `.map(Wrapper)`: a constructor applied to the success value
        k = op_const(c.args[1])
        if k and "fn" in k:
            last = (k["fn"].get("full") or "").split("::")[-1]
            if last[:1].isupper():
                return True
    return False


# ----------------------------------------------------------------------------------------------
# pretty printer (debugging aid and evidence samples)
# ----------------------------------------------------------------------------------------------


def dump_body(body, out=None):
    lines = []
    lines.append("fn %s  [%s] %s%s" % (body.def_, body.crate, body.span, " coroutine" if body.coroutine else ""))
    for i, l in enumerate(body.locals):
        nm = l.get("name")
        lines.append("    let _%d: %s%s" % (i, l["ty"], ("  // " + nm) if nm else ""))
    live = body.live_blocks()
    for i, b in enumerate(body.blocks):
        if b.get("c"):
            continue
        lines.append("  bb%d:%s" % (i, "" if i in live else "  (dead)"))
        for s in b["s"]:
            lines.append("      %s = %s    // %s%s" % (fmt_place(s["d"], body), fmt_rvalue(s["r"], body), s["l"].split("/")[-1], (" !" + s["x"]) if s.get("x") else ""))
        t = b["t"]
        k = t["k"]
        if k == "call":
            f = t.get("f")
            fn = f["full"] if f else ("(" + fmt_op(t["fo"], body) + ")")
            res = (" => " + f["resolved"]) if f and f.get("resolved") else ""
            lines.append("      %s = %s(%s) -> bb%s%s    // %s%s" % (fmt_place(t["d"], body), fn, ", ".join(fmt_op(a, body) for a in t["a"]), t["t"], res, t["l"].split("/")[-1], (" !" + t["x"]) if t.get("x") else ""))
        elif k == "switch":
            lines.append("      switch %s [%s, otherwise: bb%d]" % (fmt_op(t["d"], body), ", ".join("%s: bb%d" % (v, bb) for v, bb in t["v"]), t["o"]))
        elif k in ("goto", "false_edge", "false_unwind"):
            lines.append("      %s -> bb%d" % (k, t["t"]))
        elif k == "drop":
            lines.append("      drop(%s) -> bb%d" % (fmt_place(t["p"], body), t["t"]))
        elif k == "assert":
            lines.append("      assert(%s == %s, %s) -> bb%d" % (fmt_op(t["c"], body), t["e"], t["m"], t["t"]))
        elif k == "yield":
            lines.append("      %s = yield(%s) -> bb%d" % (fmt_place(t["d"], body), fmt_op(t["o"], body), t["t"]))
        else:
            lines.append("      %s" % k)
    txt = "\n".join(lines)
    if out:
        out.write(txt + "\n")
    return txt


# ----------------------------------------------------------------------------------------------
# symbolic description of values (used by the broker/client path rules)
# ----------------------------------------------------------------------------------------------

MAP_TYPES = ("std::collections::HashMap", "std::collections::hash_map::HashMap", "std::collections::BTreeMap", "std::collections::HashSet",
             "aldrin_broker::serial_map::SerialMap", "std::collections::hash_map::OccupiedEntry", "std::collections::hash_map::VacantEntry",
             "std::collections::hash_map::Entry", "std::collections::BTreeSet")


def short_fn(callee):
    """Type::method of a def path"""
    if callee is None:
        return "?"
    s = re.sub(r"::<[^<>]*(<[^<>]*>[^<>]*)*>", "", callee)
    parts = s.split("::")
    return "::".join(parts[-2:]) if len(parts) >= 2 else s


def _proj_str(proj):
    s = ""
    for e in proj:
        if e == "*" or e.startswith("@"):
            continue
        s += e
    return s


_SELECTORS = {}


def selector_of(prog, c):
    """[(argument index, projection suffix)] when the callee is a small local function without side effects that
    returns one of >= 2 different places of its parameters, else None"""
    fkey = c.resolved or c.callee
    key = (id(prog), fkey)
    if key in _SELECTORS:
        return _SELECTORS[key]
    _SELECTORS[key] = None
    cb = prog.body(fkey) if fkey else None
    if cb is None or cb.kind not in ("Fn", "AssocFn") or len(cb.blocks) > 16:
        return None
    if any(not is_transparent(x) for x in cb.calls):
        return None
    names = {}
    for l in range(1, cb.argc + 1):
        names[cb.local_name(l) or ("arg%d" % l)] = l - 1
    out = set()
    for dsc in describe(cb, ["c", [0]], 12):
        m = re.match(r"^(\w+)((?:\.[\w.]+)?)$", dsc)
        if not m or m.group(1) not in names or not m.group(2):
            return None
        out.add((names[m.group(1)], m.group(2)))
    if len(out) < 2:
        return None
    _SELECTORS[key] = sorted(out)
    return _SELECTORS[key]


def describe(body, operand, depth=16, _seen=None):
    """set of symbolic descriptions of where an operand's value comes from, e.g.
       'self.conns[id]', 'req.serial', 'Object::conn_id(self.objs[self.svc_uuids[req.cookie].0.uuid])',
       'const 5_usize', 'ObjectCookie::new_v4()'."""
    if _seen is None:
        _seen = set()
    if operand[0] == "k":
        k = operand[1]
        if "fn" in k:
            return {"fn:" + k["fn"]["def"]}
        return {"const:" + (k.get("def") or k.get("repr") or "?")}
    if operand[0] not in ("c", "m"):
        return {"?"}
    return describe_place(body, operand[1], depth, _seen)


def describe_place(body, place, depth, _seen):
    l = place[0]
    proj = tuple(place[1:])
    key = (l, proj)
    if depth <= 0 or key in _seen:
        return {"…"}
    _seen = _seen | {key}
    if 1 <= l <= body.argc:
        nm = body.local_name(l) or ("arg%d" % l)
        if body.kind == "Closure" and l == 1:
            # closure environment: captured variables by debug name
            for (un, up) in body.upvars:
                if tuple(up[1:len(up)]) == tuple(p for p in proj[:len(up) - 1]):
                    rest = proj[len(up) - 1:]
                    return {"upvar:" + un + _proj_str(rest)}
            return {"upvar" + _proj_str(proj)}
        return {nm + _proj_str(proj)}
    out = set()
    dl = body.defs().get(l, [])
    if not dl:
        return {"_%d%s" % (l, _proj_str(proj))}
    for ent in dl:
        if ent[0] == "stmt":
            _, bb, idx, s = ent
            dproj = tuple(s["d"][1:])
            if dproj and proj and not _overlap(strip_deref(dproj), strip_deref(proj)):
                continue
            rest = _rest(dproj, proj) if dproj else proj
            r = s["r"]
            k = r["k"]
            if k == "use" or k == "cast":
                o = r["o"][0]
                if o[0] in ("c", "m"):
                    out |= describe_place(body, list(o[1]) + list(rest), depth - 1, _seen)
                else:
                    out |= set(x + _proj_str(rest) for x in describe(body, o, depth - 1, _seen))
            elif k in ("ref", "rawptr"):
                out |= describe_place(body, list(r["p"]) + list(rest), depth - 1, _seen)
            elif k == "agg":
                fld = first_field(rest)
                names = r.get("fields") if r.get("ak") == "adt" else None
                idx_ = None
                if fld is not None:
                    if names and fld in names:
                        idx_ = names.index(fld)
                    elif fld.isdigit() and int(fld) < len(r["o"]):
                        idx_ = int(fld)
                if idx_ is not None and idx_ < len(r["o"]):
                    o = r["o"][idx_]
                    aft = after_first_field(rest)
                    if o[0] in ("c", "m"):
                        out |= describe_place(body, list(o[1]) + list(aft), depth - 1, _seen)
                    else:
                        out |= describe(body, o, depth - 1, _seen)
                else:
                    if r.get("ak") == "adt":
                        inner = []
                        for o in r["o"][:4]:
                            ds = sorted(describe(body, o, depth - 2, _seen))
                            inner.append(ds[0] if ds else "?")
                        out.add("%s::%s(%s)" % (r["adt"].split("::")[-1], r["variant"], ", ".join(inner)))
                    elif r.get("ak") == "tuple":
                        inner = []
                        for o in r["o"][:4]:
                            ds = sorted(describe(body, o, depth - 2, _seen))
                            inner.append(ds[0] if ds else "?")
                        out.add("(" + ", ".join(inner) + ")")
                    else:
                        out.add(r.get("ak", "agg"))
            elif k == "bin":
                a = sorted(describe(body, r["o"][0], depth - 2, _seen))
                b = sorted(describe(body, r["o"][1], depth - 2, _seen))
                out.add("%s(%s, %s)" % (r["op"], a[0] if a else "?", b[0] if b else "?"))
            elif k == "un":
                a = sorted(describe(body, r["o"][0], depth - 2, _seen))
                out.add("%s(%s)" % (r["op"], a[0] if a else "?"))
            elif k == "discr":
                out |= set("discr(" + x + ")" for x in describe_place(body, r["p"], depth - 1, _seen))
            else:
                out.add(k)
        elif ent[0] == "call":
            c = ent[2]
            if c.callee is None:
                out.add("indirect()")
                continue
            if is_transparent(c) and c.args:
                o = c.args[0]
                if o[0] in ("c", "m"):
                    out |= describe_place(body, list(o[1]) + [e for e in proj if e.startswith(".") and not e[1:].isdigit()], depth - 1, _seen)
                else:
                    out |= describe(body, o, depth - 1, _seen)
                continue
            sel = selector_of(body.prog, c) if getattr(body, "prog", None) is not None else None
            if sel:
                # a local helper that merely selects one of several places of its arguments (`match end { Sender =>
                # &self.sender, Receiver => &self.receiver }`): describe through it, so that extracting such a helper
                # does not blind the rules
                for (ai, suffix) in sel:
                    if ai < len(c.args):
                        for dsc in describe(body, c.args[ai], depth - 1, _seen):
                            out.add(dsc + suffix + _proj_str(proj))
                continue
            argd = []
            for o in c.args[:3]:
                ds = sorted(describe(body, o, depth - 1, _seen))
                argd.append("|".join(ds[:3]) if ds else "?")
            d = c.callee
            nm = c.name
            is_map = any(d.startswith(t) for t in MAP_TYPES)
            if is_map and nm in ("get", "get_mut", "get_key_value"):
                s_ = "%s[%s]" % (argd[0], argd[1] if len(argd) > 1 else "?")
            elif is_map and nm in ("remove", "entry", "insert", "contains_key", "contains", "remove_entry", "take"):
                s_ = "%s.%s(%s)" % (argd[0], nm, ", ".join(argd[1:]))
            elif d.startswith("std::option::Option") or d.startswith("std::result::Result"):
                s_ = "%s.%s(%s)" % (argd[0] if argd else "?", nm, ", ".join(argd[1:]))
            else:
                s_ = "%s(%s)" % (short_fn(d), ", ".join(argd))
            out.add(s_ + _proj_str(proj))
        else:
            out.add("yield")
    return out or {"?"}


Body.describe = lambda self, operand, depth=16: describe(self, operand, depth)


def _guard_to_strings(body, g, labels):
    out = []
    if g is None:
        return out
    if g["kind"] == "variant":
        ds = sorted(describe_place(body, g["place"], 16, set()))
        for lab in labels:
            for d in ds:
                out.append("%s=discr(%s)" % (lab, d))
    elif g["kind"] == "bool":
        val = labels[0] if labels else None
        if g.get("cmp"):
            op, a, b = g["cmp"]
            da = sorted(describe(body, a))
            db = sorted(describe(body, b))
            for x in da:
                for y in db:
                    out.append("%s=%s(%s, %s)" % (val, op, x, y))
        elif g.get("call") is not None:
            c = g["call"]
            argd = []
            for o in c.args[:3]:
                ds = sorted(describe(body, o))
                argd.append("|".join(ds[:3]))
            out.append("%s=%s(%s)" % (val, short_fn(c.callee), ", ".join(argd)))
        elif g.get("place") is not None:
            for d in sorted(describe_place(body, g["place"], 16, set())):
                out.append("%s=%s" % (val, d))
    elif g["kind"] == "int":
        # integer switch (e.g. `match field.id() { 0 => .., 1 => .., _ => .. }`)
        if g.get("call") is not None:
            c = g["call"]
            argd = []
            for o in c.args[:3]:
                ds = sorted(describe(body, o))
                argd.append("|".join(ds[:3]))
            subj = ["%s(%s)" % (short_fn(c.callee), ", ".join(argd))]
        elif g.get("place") is not None:
            subj = sorted(describe_place(body, g["place"], 16, set()))
        else:
            subj = ["?"]
        for lab in labels:
            for sj in subj:
                out.append("%s=int(%s)" % (lab, sj))
    return out


def guard_strings(body, bb):
    """conditions that hold on entry to block bb (edge dominance), as strings:
         'Some=discr(self.conns[id])'            variant switch
         'True=PartialEq::ne(Object::conn_id(self.objs[…]), id)'   bool from a call
         'False=Lt(ConnectionState::version(self.conns[id]), const:…V1_19)'  bool from a comparison"""
    out = []
    for (u, g, labels) in body.dominating_guards(bb):
        out.extend(_guard_to_strings(body, g, labels))
    return out + _equivalent_forms(out)


def edge_strings(body, u, v):
    """the condition under which the switch at block u takes the edge to v, in the format of guard_strings"""
    if body.blocks[u]["t"]["k"] != "switch":
        return []
    out = _guard_to_strings(body, body.switch_guard(u), body.edge_label(u, v) or [])
    return out + _equivalent_forms(out)


def edges_matching(body, patterns):
    """set of CFG edges (u, v) whose condition matches one of the regexes"""
    rxs = [re.compile(p) for p in patterns]
    out = set()
    for u in body.live_blocks():
        if body.blocks[u]["t"]["k"] != "switch":
            continue
        for v in set(body.succ(u)):
            if any(rx.search(x) for x in edge_strings(body, u, v) for rx in rxs):
                out.add((u, v))
    return out


_SWAP = {"eq": "eq", "ne": "ne", "lt": "gt", "gt": "lt", "le": "ge", "ge": "le", "Eq": "Eq", "Ne": "Ne", "Lt": "Gt", "Gt": "Lt", "Le": "Ge", "Ge": "Le"}
_NEG = {"eq": "ne", "ne": "eq", "lt": "ge", "ge": "lt", "le": "gt", "gt": "le", "Eq": "Ne", "Ne": "Eq", "Lt": "Ge", "Ge": "Lt", "Le": "Gt", "Gt": "Le"}


def _split_two(argstr):
    """split 'a, b' at the top-level comma"""
    depth = 0
    for i, ch in enumerate(argstr):
        if ch in "([":
            depth += 1
        elif ch in ")]":
            depth -= 1
        elif ch == "," and depth == 0 and argstr[i:i + 2] == ", ":
            rest = argstr[i + 2:]
            # exactly two arguments
            d2 = 0
            for j, c2 in enumerate(rest):
                if c2 in "([":
                    d2 += 1
                elif c2 in ")]":
                    d2 -= 1
                elif c2 == "," and d2 == 0:
                    return None
            return argstr[:i], rest
    return None


def _equivalent_forms(gs):
    """`a != b` may be written `b != a`, `!(a == b)`, ...: add the equivalent spellings of every comparison guard so that
    a rule written against one spelling keeps matching after such a flip"""
    extra = []
    have = set(gs)
    for g in gs:
        m = re.match(r"^(True|False)=((?:PartialEq|PartialOrd)::)?(eq|ne|lt|le|gt|ge|Eq|Ne|Lt|Le|Gt|Ge)\((.*)\)$", g)
        if not m:
            continue
        val, pre, op, args = m.group(1), m.group(2) or "", m.group(3), m.group(4)
        ab = _split_two(args)
        if not ab:
            continue
        a, b = ab
        nval = "False" if val == "True" else "True"
        pre_for = lambda o: ("PartialEq::" if o in ("eq", "ne") else "PartialOrd::") if pre else ""
        forms = [
            "%s=%s%s(%s, %s)" % (val, pre_for(_SWAP[op]), _SWAP[op], b, a),
            "%s=%s%s(%s, %s)" % (nval, pre_for(_NEG[op]), _NEG[op], a, b),
            "%s=%s%s(%s, %s)" % (nval, pre_for(_SWAP[_NEG[op]]), _SWAP[_NEG[op]], b, a),
        ]
        for f in forms:
            if f not in have:
                have.add(f)
                extra.append(f)
    # `x.is_empty()` may be written `x.len() == 0`
    for g in list(gs) + list(extra):
        m = re.match(r"^(True|False)=(\w+)::is_empty\((.*)\)$", g)
        if m:
            val, ty, a = m.groups()
            nval = "False" if val == "True" else "True"
            forms = ["%s=Eq(%s::len(%s), const:0_usize)" % (val, ty, a), "%s=Eq(const:0_usize, %s::len(%s))" % (val, ty, a), "%s=Ne(%s::len(%s), const:0_usize)" % (nval, ty, a)]
        else:
            m = re.match(r"^(True|False)=(Eq|Ne)\((\w+)::len\((.*)\), const:0_usize\)$", g)
            if not m:
                continue
            val, op, ty, a = m.groups()
            if op == "Ne":
                val = "False" if val == "True" else "True"
            forms = ["%s=%s::is_empty(%s)" % (val, ty, a)]
        for f in forms:
            if f not in have:
                have.add(f)
                extra.append(f)
    return extra


Body.guard_strings = lambda self, bb: guard_strings(self, bb)


def base_local(body, operand, depth=8):
    """the user-declared local a reference operand ultimately borrows (through re-borrows/moves)"""
    p = op_place(operand)
    while p is not None and depth > 0:
        depth -= 1
        l = p[0]
        if body.locals[l].get("user") or (1 <= l <= body.argc):
            return l
        dl = [e for e in body.defs().get(l, []) if e[0] == "stmt" and len(e[3]["d"]) == 1]
        if len(dl) != 1:
            return l
        r = dl[0][3]["r"]
        if r["k"] in ("ref", "rawptr"):
            p = r["p"]
        elif r["k"] in ("use", "cast"):
            p = op_place(r["o"][0])
        else:
            return l
    return p[0] if p is not None else None


def base_through(body, operand, depth=10):
    """like base_local, but also looks through transparent calls (Deref::deref_mut of a Vec before a slice method …)"""
    p = op_place(operand)
    while p is not None and depth > 0:
        depth -= 1
        l = p[0]
        if body.locals[l].get("user") or (1 <= l <= body.argc):
            return l
        dl = body.defs().get(l, [])
        if len(dl) != 1:
            return l
        ent = dl[0]
        if ent[0] == "stmt":
            r = ent[3]["r"]
            if r["k"] in ("ref", "rawptr"):
                p = r["p"]
            elif r["k"] in ("use", "cast") and op_place(r["o"][0]) is not None:
                p = op_place(r["o"][0])
            else:
                return l
        elif ent[0] == "call" and is_transparent(ent[2]) and ent[2].args:
            p = op_place(ent[2].args[0])
        else:
            return l
    return p[0] if p is not None else None


Body.base_through = lambda self, operand: base_through(self, operand)
Body.base_local = lambda self, operand: base_local(self, operand)
Body.edges_matching = lambda self, patterns: edges_matching(self, patterns)


def edge_labels_reaching(body, u, bb):
    """labels of the out-edges of switch block u from which block bb is reachable"""
    out = set()
    for (v, lab) in body.succ_labeled(u):
        if bb == v or bb in body.reachable(v, without_nodes=(u,)):
            for l in (body.edge_label(u, v) or []):
                out.add(l)
    return out


Body.edge_labels_reaching = lambda self, u, bb: edge_labels_reaching(self, u, bb)
