"""Message codec facts for C08: writer and reader token sequences of every MessageOps impl with
field identity (which field of the message each wire datum comes from / goes to)."""
import re

import mir
import sig

SER = "aldrin_core::message::serializer::MessageSerializer::"
DES = re.compile(r"^aldrin_core::message::deserializer::Message(With|Without)ValueDeserializer::(\w+)$")


def field_path(desc):
    """'self.event.0.uuid.0' -> ('event', 'uuid'); numeric components and 'self' dropped"""
    parts = [p for p in desc.split(".") if p and not p.isdigit()]
    if parts and parts[0] == "self":
        parts = parts[1:]
    return tuple(parts)


def kind_const(body, operand):
    ds = sorted(body.describe(operand))
    out = []
    for d in ds:
        m = re.match(r"^(\w+)::(\w+)\(\)$", d)
        out.append("%s::%s" % (m.group(1), m.group(2)) if m else d)
    return "|".join(out)


def writer_classify(c):
    d = c.callee or ""
    b = c.body
    if d.startswith(SER):
        nm = c.name
        if nm == "without_value":
            return [("CTOR", "without", kind_const(b, c.args[0]))]
        if nm == "with_value":
            src = sorted(field_path(x) for x in b.describe(c.args[0]))
            return [("CTOR", "with", kind_const(b, c.args[1]), tuple(src))]
        if nm == "with_none_value":
            return [("CTOR", "with_none", kind_const(b, c.args[0]))]
        if nm == "put_varint_u32_le":
            return [("V32", tuple(sorted(field_path(x) for x in b.describe(c.args[1]))))]
        if nm == "put_uuid":
            return [("UUID", tuple(sorted(field_path(x) for x in b.describe(c.args[1]))))]
        if nm == "put_discriminant_u8":
            ds = sorted(b.describe(c.args[1]))
            if ds and all(d.startswith("self.") or d == "self" for d in ds):
                # the field itself is the wire enum (written through Into<u8>)
                return [("DISCF", tuple(sorted(field_path(x) for x in ds)))]
            return [("DISC", kind_const(b, c.args[1]))]
        if nm == "finish":
            return [("FIN",)]
        return None
    if c.name == "serialize_into_message":
        st = (c.self_adt or c.self_ty or "?").split("::")[-1]
        return [("SUB", st, tuple(sorted(field_path(x) for x in b.describe(c.args[0]))))]
    return None


class ReaderView:
    """destination path of every read call of a deserialize_message body"""

    def __init__(self, prog, body):
        self.prog = prog
        self.body = body
        self.dest = {}      # call bb -> set of field paths
        self.made = set()   # (field path, variant) of enum values constructed
        # decompose the returned value (`_0`): struct literals, enum constructors, `.map(Self::V)` tail calls
        self._decompose(["c", [0]], (), 0)

    def _is_ret(self, st):
        return st["d"] == [0]

    def _ctor_fields(self, callee_def):
        """param index -> field name for simple constructor functions (`Self { a, b }` / tuple structs)"""
        cb = self.prog.body(callee_def)
        if cb is None:
            return None
        out = {}
        for i in sorted(cb.live_blocks()):
            for st in cb.blocks[i]["s"]:
                r = st["r"]
                if st["d"] == [0] and r["k"] == "agg" and r.get("ak") == "adt":
                    for fname, o in zip(r.get("fields", []), r["o"]):
                        p = mir.op_place(o)
                        if p is not None:
                            for org in cb.origins(o):
                                if org[0] == "param":
                                    out[org[1] - 1] = fname
        return out or None

    def _decompose(self, operand, path, depth):
        b = self.body
        if depth > 12:
            return
        p = mir.op_place(operand)
        if p is None:
            return
        # projection of a tuple field etc.: treat the base local
        l = p[0]
        for ent in b.defs().get(l, []):
            if ent[0] == "stmt":
                st = ent[3]
                if len(st["d"]) > 1:
                    continue
                r = st["r"]
                if r["k"] in ("use", "cast"):
                    self._decompose(r["o"][0], path, depth + 1)
                elif r["k"] == "agg" and r.get("ak") == "adt":
                    adt = r["adt"]
                    is_wrapper = adt.split("::")[-1] in ("Result", "Option", "ControlFlow")
                    if not is_wrapper:
                        a = self.prog.adt(adt)
                        if a is not None and a["kind"] == "Enum":
                            self.made.add((path, "%s::%s" % (adt.split("::")[-1], r["variant"])))
                    elif adt.split("::")[-1] == "Option":
                        self.made.add((path, "Option::%s" % r["variant"]))
                    names = r.get("fields", [])
                    for fname, o in zip(names, r["o"]):
                        np = path if (is_wrapper or fname.isdigit()) else path + (fname,)
                        self._decompose(o, np, depth + 1)
                elif r["k"] == "agg" and r.get("ak") == "tuple":
                    for o in r["o"]:
                        self._decompose(o, path, depth + 1)
            elif ent[0] == "call":
                c = ent[2]
                d = c.callee or ""
                if c.name == "from_residual":
                    continue  # error propagation is not a data flow into the message
                if DES.match(d) or (d.startswith("aldrin_core::") and c.name == "deserialize_from_message"):
                    self.dest.setdefault(c.bb, set()).add(path)
                    continue
                if mir.is_transparent(c) or c.name in ("map", "map_err", "ok_or", "and_then") and (d.startswith("std::result::Result") or d.startswith("std::option::Option")):
                    if c.name == "map" and len(c.args) > 1:
                        k = mir.op_const(c.args[1])
                        if k and "fn" in k and (k["fn"].get("full") or "").endswith("::Some") and "option::Option" in (k["fn"].get("full") or ""):
                            self.made.add((path, "Option::Some"))
                    if c.args:
                        self._decompose(c.args[0], path, depth + 1)
                    continue
                cf = self._ctor_fields(c.resolved) or self._ctor_fields(d)
                if cf:
                    for ai, a in enumerate(c.args):
                        fname = cf.get(ai)
                        self._decompose(a, path + ((fname,) if fname and not fname.isdigit() else ()), depth + 1)
                    continue
                # conversions such as `.into()` on a read result / unknown helpers: pass the first argument through
                if c.args:
                    self._decompose(c.args[0], path, depth + 1)

    def classify(self, c):
        d = c.callee or ""
        b = c.body
        m = DES.match(d)
        if m:
            nm = m.group(2)
            dst = tuple(sorted(self.dest.get(c.bb, {("?",)})))
            if nm == "new":
                return [("CTOR", "with" if m.group(1) == "With" else "without", kind_const(b, c.args[1]))]
            if nm == "try_get_varint_u32_le":
                return [("V32", dst)]
            if nm == "try_get_uuid":
                return [("UUID", dst)]
            if nm == "try_get_discriminant_u8":
                if c.bb in self.dest:
                    # the decoded wire enum is stored as the field itself
                    return [("DISCF", tuple(sorted(self.dest[c.bb])))]
                return [("GETDISC", c.gargs[-1].split("::")[-1] if c.gargs else "?", c.bb)]
            if nm == "finish":
                return [("FIN", "value" if m.group(1) == "With" else "none", dst if m.group(1) == "With" else ())]
            if nm == "finish_discard_value":
                return [("FIN", "discard", ())]
            return None
        if c.name == "deserialize_from_message":
            st = (c.self_adt or c.self_ty or "?").split("::")[-1]
            return [("SUB", st, tuple(sorted(self.dest.get(c.bb, {("?",)}))))]
        return None


def message_impls(prog):
    """MessageOps impls of concrete message structs: name -> {method: body}"""
    out = {}
    for imp in prog.impls:
        if (imp.get("trait") or "").endswith("::MessageOps") and imp["crate"] == "aldrin_core":
            name = imp["self"].split("::")[-1]
            out[name] = {it["name"]: prog.body(it["def"]) for it in imp["items"] if it["kind"] == "fn"}
    return out


def writer_paths(prog, body):
    S = sig.Sig(prog, writer_classify, expand_depth=0)
    S.label_results = False
    S.all_enums = True
    out = []
    for toks in S.tokens(body):
        out.append(tuple(toks))
    return out


def reader_paths(prog, body):
    rv = ReaderView(prog, body)
    S = sig.Sig(prog, rv.classify, expand_depth=0)
    S.all_enums = True
    out = []
    for toks in S.tokens(body):
        out.append(tuple(toks))
    return out, rv


def canon_writer(toks):
    """(canonical token sequence, payload field, {data variant -> disc variant})"""
    seq = []
    payload = None
    mapping = {}
    pending = []
    for t in toks:
        if t[0] == "@":
            pending.append(t)
        elif t[0] == "CTOR":
            seq.append(("C", "with" if t[1] in ("with", "with_none") else "without", t[2]))
            if t[1] == "with":
                payload = t[3]
            elif t[1] == "with_none":
                payload = "discard"
        elif t[0] == "DISC":
            seq.append(("D", t[1]))
            if pending:
                lab = pending.pop()
                mapping[(lab[2] if len(lab) > 2 else "?", lab[1])] = t[1]
        elif t[0] == "FIN":
            seq.append(("F",))
        else:
            seq.append(t)
    return tuple(seq), payload, mapping


def canon_reader(toks):
    seq = []
    payload = None
    i = 0
    toks = list(toks)
    while i < len(toks):
        t = toks[i]
        if t[0] == "GETDISC":
            if i + 1 < len(toks) and toks[i + 1][0] == "@":
                seq.append(("D", "%s::%s" % (t[1], toks[i + 1][1])))
                i += 1
            else:
                seq.append(("D", t[1] + "::?"))
        elif t[0] == "@":
            pass
        elif t[0] == "CTOR":
            seq.append(("C", t[1], t[2]))
        elif t[0] == "FIN":
            seq.append(("F",))
            if t[1] == "value":
                payload = t[2]
            elif t[1] == "discard":
                payload = "discard"
        else:
            seq.append(t)
        i += 1
    return tuple(seq), payload
