"""Check driver: fact extraction (cached by content hash of /repo), rule reporting, evidence."""
import fcntl
import hashlib
import json
import os
import re
import shutil
import subprocess
import sys
import time

VERIF = os.path.dirname(os.path.dirname(os.path.abspath(__file__)))
REPO = os.environ.get("VERIF_REPO", "/repo")
CACHE = os.path.join(VERIF, ".cache")
DRIVER = os.path.join(VERIF, "driver", "target", "release", "aldrin-facts-driver")

WORKSPACE_CRATES = [
    "aldrin", "aldrin_broker", "aldrin_codegen", "aldrin_core", "aldrin_gen", "aldrin_macros", "aldrin_parser",
    "aldrin_test", "aldrin_conformance_tester", "conformance_test_broker", "example_bookmarks", "example_broker",
    "example_downloader", "example_echo", "example_introspect", "example_media_player",
]

# extraction configurations: name -> cargo arguments
CONFIGS = {
    # whole workspace, every target (tests/examples = corpus of macro expansions), every feature
    "ws": ["--workspace", "--all-targets", "--all-features"],
    # cfg matrix of the broker: handler twins behind #[cfg(not(feature = "introspection"))] etc.
    "broker-none": ["-p", "aldrin-broker", "--lib"],
    "broker-stat": ["-p", "aldrin-broker", "--lib", "--features", "statistics"],
    "broker-intro": ["-p", "aldrin-broker", "--lib", "--features", "introspection"],
    "client-none": ["-p", "aldrin", "--lib"],
    "bus-none": ["-p", "aldrin", "-p", "aldrin-broker", "--lib"],
    # narrow configurations used by the self-test (one mutated scratch copy per run)
    "broker-all": ["-p", "aldrin-broker", "--lib", "--all-features"],
    "core-all": ["-p", "aldrin-core", "-p", "aldrin-macros", "--lib", "--all-features"],
    "client-all": ["-p", "aldrin", "-p", "aldrin-broker", "--lib", "--all-features"],
}

NARROW = {"C14": "core-all", "C15": "client-all", "C19": "client-all", "C02": "broker-all", "C03": "broker-all", "C04": "client-all", "C05": "client-all", "C09": "client-all", "C10": "broker-all", "C11": "client-all",
          "C01": "core-all", "C07": "core-all", "C08": "core-all", "C13": "core-all", "C20": "core-all", "C06": "client-all", "C12": "client-all"}


OVERRIDE = os.environ.get("VERIF_CONFIG") or None

# thorough tier: feature-reduced builds analysed in addition to the all-features workspace build
_BROKER_MATRIX = ["broker-none", "broker-stat", "broker-intro"]
MATRIX = {"C02": _BROKER_MATRIX, "C03": _BROKER_MATRIX, "C04": _BROKER_MATRIX, "C05": _BROKER_MATRIX, "C10": _BROKER_MATRIX,
          "C11": ["bus-none"], "C12": ["bus-none"], "C06": ["bus-none"]}

# closed-world witnesses (witnesses/src/lib.rs) each property's table rules rely on
WITNESSES = {"C01": ["W1", "W3a", "W3b"], "C07": ["W1", "W3a"], "C13": ["W1"], "C08": ["W2", "W4a", "W4b"], "C11": ["W5"], "C09": ["W5"]}


def config_for(prop):
    """the self-test analyses one mutated scratch copy per run and only needs the crates the
    property's rules read; the registered checks always use the whole-workspace extraction"""
    if OVERRIDE:
        return OVERRIDE
    if os.environ.get("VERIF_SELFTEST") and prop in NARROW:
        return NARROW[prop]
    return "ws"


def tree_hash(repo=None):
    """content hash of every file of the working tree (not target/, not .git/)"""
    repo = repo or REPO
    h = hashlib.sha256()
    for root, dirs, files in os.walk(repo):
        dirs[:] = sorted(d for d in dirs if d not in ("target", ".git"))
        for fn in sorted(files):
            p = os.path.join(root, fn)
            rel = os.path.relpath(p, repo)
            try:
                with open(p, "rb") as f:
                    data = f.read()
            except OSError:
                continue
            h.update(rel.encode() + b"\0" + hashlib.sha256(data).digest())
    # the driver and this extraction code are part of the key
    for p in (os.path.join(VERIF, "driver", "src", "main.rs"),):
        with open(p, "rb") as f:
            h.update(hashlib.sha256(f.read()).digest())
    return h.hexdigest()[:20]


def workspace_packages(repo):
    out = subprocess.check_output(["cargo", "metadata", "--no-deps", "--offline", "--format-version", "1"], cwd=repo, text=True,
                                  env=dict(os.environ, CARGO_NET_OFFLINE="true"), stderr=subprocess.DEVNULL)
    return set(p["name"] for p in json.loads(out)["packages"])


def nightly_sysroot():
    return subprocess.check_output(["rustc", "+nightly", "--print", "sysroot"], text=True).strip()


def build_driver():
    if os.path.exists(DRIVER):
        src = os.path.join(VERIF, "driver", "src", "main.rs")
        if os.path.getmtime(DRIVER) >= os.path.getmtime(src):
            return
    env = dict(os.environ, CARGO_NET_OFFLINE="true")
    subprocess.check_call(["cargo", "+nightly", "build", "--release", "--offline", "-q"], cwd=os.path.join(VERIF, "driver"), env=env)


def _prune_cache(keep, prefix):
    """keep the facts of at most 3 trees (self-test scratch trees are kept apart from the real ones)"""
    if not os.path.isdir(CACHE):
        return
    ents = []
    for d in os.listdir(CACHE):
        p = os.path.join(CACHE, d)
        if d.startswith(prefix) and os.path.isdir(p) and d != keep:
            ents.append((os.path.getmtime(p), p))
    ents.sort()
    while len(ents) > 2:
        _, p = ents.pop(0)
        shutil.rmtree(p, ignore_errors=True)


def ensure_facts(config="ws", repo=None, log=None):
    """Extract (or reuse by content hash) the facts of `config` for the current tree.
    Returns the facts directory."""
    repo = repo or REPO
    os.makedirs(CACHE, exist_ok=True)
    th = tree_hash(repo)
    prefix = "stree-" if os.environ.get("VERIF_SELFTEST") else "tree-"
    tdir = os.path.join(CACHE, prefix + th)
    fdir = os.path.join(tdir, "facts-" + config)
    stamp = os.path.join(fdir, "COMPLETE")
    lock_path = os.path.join(CACHE, "lock")
    with open(lock_path, "w") as lock:
        fcntl.flock(lock, fcntl.LOCK_EX)
        if os.path.exists(stamp):
            os.utime(tdir, None)
            return fdir
        build_driver()
        _prune_cache(prefix + th, prefix)
        if os.path.isdir(fdir):
            shutil.rmtree(fdir)
        os.makedirs(fdir)
        # Persistent target dir: third-party dependencies are reused, but every workspace member is
        # forced through the driver again by deleting its fingerprints (cargo's freshness cache
        # would otherwise skip the wrapper and no facts would be written).
        target = os.path.join(CACHE, "target-" + ("ws" if config in ("ws", "broker-all", "core-all", "client-all") else "cfg"))
        fp = os.path.join(target, "debug", ".fingerprint")
        if os.path.isdir(fp):
            members = workspace_packages(repo)
            for d in os.listdir(fp):
                if d.rsplit("-", 1)[0] in members:
                    shutil.rmtree(os.path.join(fp, d), ignore_errors=True)
        env = dict(os.environ)
        env.update({
            "LD_LIBRARY_PATH": os.path.join(nightly_sysroot(), "lib") + ":" + env.get("LD_LIBRARY_PATH", ""),
            "RUSTFLAGS": "-Zmir-opt-level=0 --cap-lints allow",
            "RUSTC_WORKSPACE_WRAPPER": DRIVER,
            "VERIF_FACTS_DIR": fdir,
            "CARGO_TARGET_DIR": target,
            "CARGO_NET_OFFLINE": "true",
            "CARGO_INCREMENTAL": "0",
        })
        cmd = ["cargo", "+nightly", "check", "--offline"] + CONFIGS[config]
        t0 = time.time()
        p = subprocess.run(cmd, cwd=repo, env=env, stdout=subprocess.PIPE, stderr=subprocess.STDOUT, text=True)
        if p.returncode != 0:
            sys.stderr.write(p.stdout[-6000:])
            raise SystemExit("fact extraction failed (cargo check exit %d): the tree does not compile under the analysed configuration" % p.returncode)
        n = len([f for f in os.listdir(fdir) if f.endswith(".json")])
        if n == 0:
            raise SystemExit("fact extraction produced no fact files")
        with open(stamp, "w") as f:
            f.write("%s %.1fs %d files\n" % (" ".join(cmd), time.time() - t0, n))
        return fdir


# ----------------------------------------------------------------------------------------------
# reporting
# ----------------------------------------------------------------------------------------------


class Report:
    def __init__(self, prop, tier, seed):
        self.prop = prop
        self.tier = tier
        self.seed = seed
        self.t0 = time.time()
        self.obligations = 0
        self.discharged = 0
        self.nontrivial = set()
        self.samples = []
        self.per_rule = {}
        self.violations = []  # (key, rule, where, msg, extra)
        self.notes = []
        self.analysed = {}
        self.explanation = ""
        self.trusted = []
        self.assumptions = []
        self.exhaustive = {}
        self.matrix = None      # name of the extra cfg being analysed in the thorough tier (None = base run)
        self.matrix_runs = []

    def ok(self, rule, instance, detail=None, nontrivial=True, sample=True):
        """an obligation that was discharged"""
        self.obligations += 1
        self.discharged += 1
        r = self.per_rule.setdefault(rule, {"obligations": 0, "discharged": 0})
        r["obligations"] += 1
        r["discharged"] += 1
        if nontrivial:
            self.nontrivial.add((rule, instance))
        if sample and sum(1 for s in self.samples if s["rule"] == rule) < 3:
            self.samples.append({"rule": rule, "instance": instance, "facts": detail})

    def fail(self, rule, where_def, instance, msg, line=None, extra=None):
        """an obligation that failed -> violation keyed rule:def:instance (no line numbers)"""
        self.obligations += 1
        r = self.per_rule.setdefault(rule, {"obligations": 0, "discharged": 0})
        r["obligations"] += 1
        key = "%s:%s:%s" % (rule, where_def, instance)
        if any(v["key"] == key for v in self.violations):
            return  # same construct already reported (base configuration)
        if self.matrix:
            msg = "[cfg %s] %s" % (self.matrix, msg)
        self.violations.append({"key": key, "rule": rule, "def": where_def, "instance": instance, "msg": msg, "line": line, "extra": extra})

    def check(self, cond, rule, where_def, instance, msg, line=None, detail=None, extra=None):
        if cond:
            self.ok(rule, "%s:%s" % (where_def, instance), detail)
        else:
            self.fail(rule, where_def, instance, msg, line, extra)
        return cond

    def floor(self, rule, what, count, minimum):
        """fail closed when fewer instances were found than confirmed by hand"""
        if self.matrix:
            # the floor was enforced on the all-features run; a feature-reduced build has fewer sites
            self.analysed["%s:%s@%s" % (rule, what, self.matrix)] = count
            return
        self.analysed["%s:%s" % (rule, what)] = count
        if count < minimum:
            self.fail(rule, "<floor>", what, "found %d instances of %s, expected at least %d (rule would pass vacuously)" % (count, what, minimum))
        else:
            self.ok(rule, "floor:%s" % what, {"count": count, "floor": minimum}, nontrivial=False, sample=False)

    def note(self, s):
        self.notes.append(s)


def run_witnesses(rep):
    """compile_fail doctests with compiling twins, built against the analysed tree (nightly: error codes are checked)"""
    want = WITNESSES.get(rep.prop)
    if not want:
        return
    repo = os.environ.get("VERIF_REPO", "/repo")
    wdir = os.path.join(CACHE, "witnesses")
    os.makedirs(os.path.join(wdir, "src"), exist_ok=True)
    os.makedirs(os.path.join(wdir, ".cargo"), exist_ok=True)
    src = os.path.join(VERIF, "witnesses")
    toml = open(os.path.join(src, "Cargo.toml")).read().replace("../../repo", repo)
    open(os.path.join(wdir, "Cargo.toml"), "w").write(toml)
    shutil.copy(os.path.join(src, "src", "lib.rs"), os.path.join(wdir, "src", "lib.rs"))
    shutil.copy(os.path.join(src, ".cargo", "config.toml"), os.path.join(wdir, ".cargo", "config.toml"))
    shutil.copy(os.path.join(repo, "Cargo.lock"), os.path.join(wdir, "Cargo.lock"))
    env = dict(os.environ, CARGO_TARGET_DIR=os.path.join(CACHE, "target-wit"), CARGO_NET_OFFLINE="true")
    env.pop("RUSTC_WORKSPACE_WRAPPER", None)
    with open(os.path.join(CACHE, "lock-wit"), "w") as lk:
        fcntl.flock(lk, fcntl.LOCK_EX)
        p = subprocess.run(["cargo", "+nightly", "test", "--doc", "--offline"], cwd=wdir, env=env, capture_output=True, text=True)
    res = {}
    for m in re.finditer(r"^test src/lib\.rs - (\w+) \(line \d+\)( - compile fail)? \.\.\. (\w+)", p.stdout, re.M):
        res.setdefault(m.group(1), {})["fail" if m.group(2) else "twin"] = m.group(3)
    for w in want:
        r = res.get(w, {})
        rep.check(r.get("fail") == "ok", "%s-W" % rep.prop, "witnesses::" + w, "compile-fail", "closed-world witness %s no longer fails to compile with its error code: the table rules of %s are not closed (%s)" % (w, rep.prop, (p.stderr or p.stdout)[-400:] if not r else r),
                  detail={"witness": w})
        rep.check(r.get("twin") == "ok", "%s-W" % rep.prop, "witnesses::" + w, "twin-compiles", "the compiling twin of witness %s does not build: the witness fails for the wrong reason (%s)" % (w, (p.stderr or p.stdout)[-400:] if not r else r),
                  detail={"witness": w})


def load_known():
    path = os.path.join(VERIF, "known_findings.txt")
    known = {}
    if os.path.exists(path):
        for line in open(path):
            line = line.strip()
            if not line or line.startswith("#"):
                continue
            if line.startswith("open:"):
                parts = dict(p.split("=", 1) for p in line[5:].split() if "=" in p and p.split("=")[0] in ("property", "key"))
                what = line.split(" what=", 1)[1] if " what=" in line else ""
                known[parts.get("key")] = (parts.get("property"), what)
    return known


def finish(rep, checker_cmd):
    known = load_known()
    selftest = bool(os.environ.get("VERIF_SELFTEST"))
    vio_dir = os.path.join(CACHE, "selftest-violations") if selftest else os.path.join(VERIF, "violations")
    ev_dir = os.path.join(CACHE, "selftest-evidence") if selftest else os.path.join(VERIF, "evidence")
    os.makedirs(vio_dir, exist_ok=True)
    os.makedirs(ev_dir, exist_ok=True)
    real = []
    for v in rep.violations:
        if v["key"] in known and known[v["key"]][0] == rep.prop:
            print("KNOWN-FINDING: property=%s %s — %s" % (rep.prop, v["key"], known[v["key"]][1] or v["msg"]))
            continue
        real.append(v)
    for v in real:
        h = hashlib.sha256(v["key"].encode()).hexdigest()[:12]
        path = os.path.join(vio_dir, "%s-%s.json" % (rep.prop, h))
        with open(path, "w") as f:
            json.dump(v, f, indent=1)
        print("%s: %s [%s] %s: %s" % (v.get("line") or "?", v["rule"], v["def"], v["instance"], v["msg"]))
        print("VIOLATION property=%s replay=%s" % (rep.prop, path))
    ev = {
        "property_id": rep.prop,
        "tier": rep.tier,
        "seed": rep.seed,
        "level": "other",
        "coverage": {
            "explanation": rep.explanation,
            "obligations": rep.obligations,
            "discharged": rep.discharged,
            "evaluations": rep.obligations,
            "distinct_nontrivial": len(rep.nontrivial),
            "rule": "one evaluation = one rule instance (obligation) derived from the resolved program facts of this run; non-trivial = the decision used at least one extracted program fact (a resolved call site, a dominating guard, an origin slice, a table row) — floor checks are not counted",
            "checker_cmd": checker_cmd,
            "trusted_base": rep.trusted,
            "samples": rep.samples[:40],
            "per_rule": rep.per_rule,
            "analysed": rep.analysed,
            "exhaustive": bool(rep.exhaustive) and all(rep.exhaustive.values()),
            "exhaustive_rules": sorted(rep.exhaustive),
            "known_findings_suppressed": len(rep.violations) - len(real),
            "notes": rep.notes,
            "cfg_matrix": rep.matrix_runs,
        },
        "assumptions": rep.assumptions,
        "wall_s": round(time.time() - rep.t0, 2),
        "violations": len(real),
    }
    with open(os.path.join(ev_dir, rep.prop + ".json"), "w") as f:
        json.dump(ev, f, indent=1, default=str)
    print("%s tier=%s obligations=%d discharged=%d violations=%d known=%d wall=%.1fs" % (
        rep.prop, rep.tier, rep.obligations, rep.discharged, len(real), len(rep.violations) - len(real), time.time() - rep.t0))
    return 1 if real else 0
