"""C12 — version negotiation, feature gating, cross-version payload interop (structural clauses)."""
import re

import broker
import engine
import mir
import proto
from c02 import all_match, any_match
from c05 import rows

EXPLANATION = (
    "Static belief cross-check between the two programs (broker and client) plus guard/origin rules, on rustc MIR. Decided: (R1) the version constants "
    "of the acceptor, both client handshakes, the value converter and the epoch table agree (MIN = epoch-1 MIN = 1.14 = legacy handshake; MAX = epoch-2 "
    "MAX = converter MAX = client handshake = 1.20; epoch-1 MAX + 1 = epoch-2 MIN) and select_protocol_version has the specified rows (major check, "
    "connect2 → min(minor, MAX.minor) from MIN.minor, legacy → exactly 1.14); (R2) for every client→broker kind the broker's effect gate (lowest "
    "version at which the handler can have any effect; below it the connection is closed with Err) is not above what the client assumes when it sends "
    "that kind, and for every broker→client kind the client's accept gate is implied at every broker send site; (R3) every broker send of a gated kind "
    "is guarded by the TARGET connection's version; (R4) every transport send in broker and client is dominated by the payload conversion to the "
    "connection's negotiated version; (R5) forwarded client payloads carry the ORIGINATOR's version, never the target's; (R6) create_service2 clears "
    "subscribe_all below 1.18. debug_assert!(version >= V) counts as a stated belief (dev profile). Not decided: 'arrives meaning the same value'."
)

MAIN_ID_VERSION = r"ConnectionState::version\(self\.conns\[id\]"


def const_of(prog, def_):
    b = prog.body(def_)
    if b is None:
        return None
    ds = set()
    for i in sorted(b.live_blocks()):
        for st in b.blocks[i]["s"]:
            if st["d"] == [0]:
                if st["r"]["k"] == "use":
                    ds |= b.describe(st["r"]["o"][0])
                elif st["r"]["k"] == "agg":
                    ds.add("agg")
    return sorted(ds)


def minor_of(prog, const_def):
    """minor number of an aldrin_core::ProtocolVersion associated constant"""
    b = prog.body(const_def)
    if b is None:
        # constants referenced from another crate print through their visible path (aldrin_core::ProtocolVersion::V1_14),
        # the body is keyed by the canonical one (aldrin_core::protocol_version::ProtocolVersion::V1_14)
        tail = "::" + "::".join(const_def.split("::")[-2:])
        cand = [d for d in prog.bodies if d.endswith(tail) and d.split("::")[0] == const_def.split("::")[0]]
        b = prog.body(cand[0]) if len(cand) == 1 else None
    if b is None:
        return None
    for i in sorted(b.live_blocks()):
        for st in b.blocks[i]["s"]:
            r = st["r"]
            if st["d"] == [0] and r["k"] == "agg" and r.get("ak") == "adt":
                f = dict(zip(r.get("fields", []), r["o"]))
                mi = mir.op_const(f.get("minor")) if f.get("minor") else None
                ma = mir.op_const(f.get("major")) if f.get("major") else None
                if mi and ma:
                    return (int(ma["int"]), int(mi["int"]))
        for c in b.calls:
            if c.dest == [0] and c.name == "new":
                a = [mir.op_const(x) for x in c.args]
                if all(a) and all("int" in x for x in a):
                    return (int(a[0]["int"]), int(a[1]["int"]))
    return None


def run(rep):
    rep.explanation = EXPLANATION
    rep.trusted = ["rustc nightly MIR and const evaluation", "PartialOrd on ProtocolVersion is the derived lexicographic order (major, minor)"]
    rep.assumptions = ["debug_assert!(self.version >= V) is a stated belief of the client (checked as a branch in the analysed dev profile)"]
    fdir = engine.ensure_facts(engine.config_for("C12"))
    prog = proto.load(fdir)
    M = broker.methods(prog)

    # ---- R1 constants ------------------------------------------------------------------------------------
    consts = {
        "acceptor.MIN": "aldrin_broker::acceptor::select_protocol_version::MIN",
        "acceptor.MAX": "aldrin_broker::acceptor::select_protocol_version::MAX",
        "client.connect2": "aldrin::client_builder::ClientBuilder::<T>::connect_with_data::{closure#0}::PROTOCOL_VERSION",
        "client.connect1": "aldrin::client_builder::ClientBuilder::<T>::connect1_with_data::{closure#0}::PROTOCOL_VERSION",
        "convert.MAX": "aldrin_core::convert_value::convert::MAX",
        "epoch.V1_MIN": "<aldrin_core::convert_value::Epoch as std::convert::TryFrom<aldrin_core::ProtocolVersion>>::try_from::V1_MIN",
        "epoch.V1_MAX": "<aldrin_core::convert_value::Epoch as std::convert::TryFrom<aldrin_core::ProtocolVersion>>::try_from::V1_MAX",
        "epoch.V2_MIN": "<aldrin_core::convert_value::Epoch as std::convert::TryFrom<aldrin_core::ProtocolVersion>>::try_from::V2_MIN",
        "epoch.V2_MAX": "<aldrin_core::convert_value::Epoch as std::convert::TryFrom<aldrin_core::ProtocolVersion>>::try_from::V2_MAX",
    }
    val = {}
    for k, d in consts.items():
        v = const_of(prog, d)
        ok = v is not None and len(v) == 1 and v[0].startswith("const:aldrin_core::ProtocolVersion::V")
        if not ok:
            # definitions may live under a slightly different path (closure numbering): search by suffix
            cand = [x for x in prog.bodies if x.endswith("::" + d.split("::")[-1]) and d.split("::")[-3 if "closure" in d else -2] in x]
            if len(cand) == 1:
                v = const_of(prog, cand[0])
                ok = v is not None and len(v) == 1
        rep.check(ok, "C12-R1", d, "const-found", "version constant %s not found or not a ProtocolVersion constant: %s" % (k, v), detail={"value": v})
        if ok:
            val[k] = minor_of(prog, v[0][len("const:"):])
    rep.floor("C12-R1", "version constants", len(val), 9)
    rep.check(len(val) == 9 and all(val.values()), "C12-R1", "version-constants", "values-evaluated", "the numeric value of a version constant could not be evaluated: %s" % val, detail={k: str(v) for k, v in val.items()})
    if len(val) == 9 and all(val.values()):
        eqs = [
            ("MIN = epoch-1 MIN = legacy handshake = 1.14", val["acceptor.MIN"] == val["epoch.V1_MIN"] == val["client.connect1"] == (1, 14)),
            ("MAX = epoch-2 MAX = converter MAX = client handshake = 1.20", val["acceptor.MAX"] == val["epoch.V2_MAX"] == val["convert.MAX"] == val["client.connect2"] == (1, 20)),
            ("epoch-1 MAX + 1 = epoch-2 MIN", val["epoch.V1_MAX"][0] == val["epoch.V2_MIN"][0] and val["epoch.V1_MAX"][1] + 1 == val["epoch.V2_MIN"][1]),
            ("the value encoding changes at 1.20 (properties C12/C13: 'a protocol version before 1.20', 'encodings introduced in 1.20'): epoch-2 MIN = 1.20, epoch-1 MAX = 1.19", val["epoch.V2_MIN"] == (1, 20) and val["epoch.V1_MAX"] == (1, 19)),
            ("epoch-2 MIN <= epoch-2 MAX, epoch-1 MIN <= epoch-1 MAX", val["epoch.V2_MIN"] <= val["epoch.V2_MAX"] and val["epoch.V1_MIN"] <= val["epoch.V1_MAX"]),
        ]
        for name, ok in eqs:
            rep.check(ok, "C12-R1", "version-constants", name, "version constants disagree: %s (values %s)" % (name, val), detail=val)
    sp = prog.one(r"^aldrin_broker::acceptor::select_protocol_version$")
    g_none = [r for r in rows(sp) if r[0] == "Option::None"]
    g_some = [r for r in rows(sp) if r[0] == "Option::Some"]
    ok = len(g_none) == 3 and len(g_some) == 2
    major_ne = any(any(re.search(r"^True=Ne\(ProtocolVersion::major\(version\), ProtocolVersion::major\(const:.*::MIN\)\)$", x) for x in r[2]) for r in g_none)
    c2 = [r for r in g_some if any(x == "True=connect2" for x in r[2])]
    leg = [r for r in g_some if any(x == "False=connect2" for x in r[2])]
    ok = ok and major_ne and len(c2) == 1 and len(leg) == 1
    if ok:
        ok = any(re.search(r"^True=Ge\(ProtocolVersion::minor\(version\), ProtocolVersion::minor\(const:.*::MIN\)\)$", x) for x in c2[0][2]) and \
            any(re.search(r"^True=Eq\(ProtocolVersion::minor\(version\), ProtocolVersion::minor\(const:aldrin_core::ProtocolVersion::V1_14\)\)$", x) for x in leg[0][2]) and \
            all_match(sp.describe(leg[0][3]["r"]["o"][0]), r"^const:aldrin_core::ProtocolVersion::V1_14$")
        mn = [c for c in sp.calls if c.name == "min"]
        ok = ok and len(mn) == 1 and all_match(sp.describe(mn[0].args[0]), r"^ProtocolVersion::minor\(version\)$") and all_match(sp.describe(mn[0].args[1]), r"^ProtocolVersion::minor\(const:.*::MAX\)$")
        nw = [c for c in sp.calls if c.name == "new" and "ProtocolVersion" in (c.callee or "")]
        ok = ok and len(nw) == 1 and all_match(sp.describe(nw[0].args[0]), r"^ProtocolVersion::major\(const:.*::MIN\)$") and all_match(sp.describe(nw[0].args[1]), r"^Ord::min\(")
    rep.check(ok, "C12-R1", sp.def_, "selection-rows", "select_protocol_version must reject other majors, answer min(minor, MAX.minor) for the new handshake from MIN.minor on, and exactly 1.14 for the legacy handshake",
              detail={"none_rows": [r[2] for r in g_none], "some_rows": [r[2] for r in g_some]})
    # client side of the handshake: a broker answering a newer version than requested is refused
    cb = prog.find(r"^aldrin::client_builder::ClientBuilder::<T>::connect_with_data::\{closure#0\}$")
    if len(cb) == 1:
        b = cb[0]
        errs = [r for r in rows(b) if r[0].endswith("IncompatibleVersion") or r[0].endswith("InvalidProtocolVersion") or "Version" in r[0]]
        gt = any(any(re.search(r"^True=PartialOrd::gt\(ProtocolVersion::new\(", x) for x in r[2]) for r in rows(b))
        rep.check(gt, "C12-R1", b.def_, "client-refuses-newer", "the client must refuse a negotiated version above what it requested", detail={})
    else:
        rep.fail("C12-R1", "aldrin::client_builder::ClientBuilder::connect_with_data", "body", "client handshake body not found (%d candidates); rule fails closed" % len(cb))

    # ---- R2 gate agreement ----------------------------------------------------------------------------------
    bd, binfo, bhm = proto.broker_dispatch(prog)
    cd, cinfo, chm = proto.client_dispatch(prog)
    csends = proto.client_sends(prog)
    bsends = broker.all_sends(prog)
    bgate = {}
    for k, hs in sorted(bd.items()):
        if hs and hs[0] not in ("ERR", "PANIC"):
            bgate[k] = proto.effect_gate(M[hs[0]], MAIN_ID_VERSION)
    cgate = {}
    for k, hs in sorted(cd.items()):
        if hs and hs[0] not in ("ERR", "PANIC"):
            hb = proto.client_handler_body(prog, hs[0])
            cgate[k] = proto.accept_gate(hb, r"self\.version$") if hb is not None else None
    gated_b = {k: v for k, v in bgate.items() if isinstance(v, int)}
    gated_c = {k: v for k, v in cgate.items() if isinstance(v, int)}
    # a gated kind is rejected below its version whatever else the request contains: every accepting exit of the handler
    # other than "requester gone" lies behind the gate (a gate that is only checked after some lookup succeeded lets an old
    # connection use the newer message whenever that lookup fails)
    for k, gate in sorted(gated_b.items()):
        hb = M[bd[k][0]]
        for o in proto.ok_exit_blocks(hb):
            g = hb.guard_strings(o)
            if any(re.search(r"^None=discr\(self\.conns\[id\]\)$", x) for x in g):
                continue
            lo = proto.version_bounds(g, MAIN_ID_VERSION)[0]
            rep.check(lo is not None and lo >= gate, "C12-R2", hb.def_, "gate-before-every-accept:%s" % k,
                      "the handler of %s (a %d-minor feature) has an accepting exit that is not behind its version gate: a connection negotiated below 1.%d can use the message on that path without being closed" % (k, gate, gate),
                      line=hb.span, detail={"guards": g[-4:]})
    rep.floor("C12-R2", "broker-gated kinds", len(gated_b), 11)
    rep.floor("C12-R2", "client-gated kinds", len(gated_c), 7)
    rep.analysed["broker_gates"] = gated_b
    rep.analysed["client_gates"] = gated_c
    # client -> broker: the client sends K only where the broker accepts it
    n = 0
    for s in csends:
        for k in sorted(s.kinds):
            if k in gated_b:
                n += 1
                lo = s.version[0]
                if lo is None and len(s.kinds) > 1:
                    lo = proto.kind_bounds_client(s).get(k, (None, None))[0]
                rep.check(lo is not None and lo >= gated_b[k], "C12-R2", "aldrin::client::Client::" + s.fn(), "client-send:%s" % k,
                          "the client sends %s when its version is %s, but the broker closes connections below 1.%d that use it" % (k, (">= 1.%d" % lo) if lo is not None else "anything", gated_b[k]), line=s.line,
                          detail={"kind": k, "client_lower_bound": lo, "broker_gate": gated_b[k]})
    rep.floor("C12-R2", "client sends of broker-gated kinds", n, 10)
    # belief agreement the other way round: a kind the client only sends from version V on (and never below) is a kind
    # newer than V-1; the broker must close older connections that use it
    client_lo = {}
    for s in csends:
        for k in sorted(s.kinds):
            lo = s.version[0]
            if lo is None and len(s.kinds) > 1:
                lo = proto.kind_bounds_client(s).get(k, (None, None))[0]
            client_lo.setdefault(k, []).append(lo)
    for k, los in sorted(client_lo.items()):
        if all(l is not None for l in los) and k in bd and bd[k] and bd[k][0] not in ("ERR", "PANIC"):
            v = min(los)
            bg = bgate.get(k)
            rep.check(isinstance(bg, int) and bg <= v, "C12-R2", M[bd[k][0]].def_, "broker-gate-missing:%s" % k,
                      "clients send %s only from 1.%d on, but the broker handler has effects for older connections too (its gate: %s): a connection using a message newer than its negotiated version is not closed" % (k, v, bg),
                      detail={"client_lower_bounds": los, "broker_gate": bg})
    # the broker's gate closes the connection: below the gate the handler returns Err without effect
    for k, v in sorted(gated_b.items()):
        h = M[bd[k][0]]
        errs = [i for (name, i, g, st) in rows(h) if name == "Result::Err" and any(proto.VER.match(x) and proto.version_bounds([x], MAIN_ID_VERSION)[1] == v for x in g)]
        rep.check(bool(errs), "C12-R2", h.def_, "gate-rejects:%s" % k, "below 1.%d the handler of %s must return Err (closing the connection)" % (v, k), detail={})
    # legacy alternatives: where the client falls back to an older kind, the bounds are complementary
    for (new, old) in [("CallFunction2", "CallFunction"), ("CreateService2", "CreateService"), ("QueryServiceInfo", "QueryServiceVersion")]:
        ns = [s for s in csends if new in s.kinds]
        os_ = [s for s in csends if old in s.kinds]
        if new in gated_b:
            ok = bool(ns) and bool(os_) and all(s.version[0] == gated_b[new] or (len(s.kinds) > 1) for s in ns) and all(s.version[1] == gated_b[new] or (len(s.kinds) > 1) for s in os_)
            rep.check(ok, "C12-R2", "aldrin::client::Client", "fallback:%s/%s" % (new, old), "the client must use %s from 1.%d on and %s below it" % (new, gated_b[new], old), detail={"new": [s.version for s in ns], "old": [s.version for s in os_]})
    # broker -> client: wherever the broker sends a kind the client gates, the target's version (or the request gate of a reply) implies the gate
    table_reason = {
        "QueryIntrospection": "targets only connections that registered introspection (RegisterIntrospection is gated at 1.17)",
        "QueryIntrospectionReply": "reply to a QueryIntrospection request, which is gated at 1.17 for the requester (pending requesters are recorded only there)",
        "UnsubscribeAllEvents": "queued owner notification exists only after a successful gated all-events subscription (owner >= 1.18 checked at subscription time)",
    }
    n = 0
    for s in bsends:
        k = s.msg_type
        if k not in gated_c:
            continue
        n += 1
        g = s.body.guard_strings(s.bb)
        # (a) guarded by the target's version
        tgt_lo = proto.version_bounds_of_conn(s.body, s.bb, s.call.args[0])[0]
        # (b) reply to the requester inside a handler gated for the requester
        req_lo = None
        if all_match(s.target, r"^self\.conns\[id\]"):
            req_lo = proto.version_bounds(g, MAIN_ID_VERSION)[0]
        ok = (tgt_lo is not None and tgt_lo >= gated_c[k]) or (req_lo is not None and req_lo >= gated_c[k])
        why = None
        if not ok and k in table_reason and s.body.name in ("query_introspection", "query_introspection_reply", "remove_introspection_conn", "process_loop_result"):
            ok = True
            why = table_reason[k]
        rep.check(ok, "C12-R3", s.body.def_, "broker-send:%s" % k, "the broker sends %s, which clients accept only from 1.%d, without a guard on the target's negotiated version" % (k, gated_c[k]), line=s.line,
                  detail={"kind": k, "target_lower_bound": tgt_lo, "requester_lower_bound": req_lo, "reason": why, "guards": [x for x in g if "version" in x]})
    rep.floor("C12-R3", "broker sends of client-gated kinds", n, 12)
    # CallFunction2 is accepted by clients at any version, but the broker states its own belief (1.19): the alternative must be complementary
    impl = M["call_function_impl"]
    cf2 = [s for s in broker.sends(impl) if s.msg_type == "CallFunction2"]
    cf1 = [s for s in broker.sends(impl) if s.msg_type == "CallFunction"]
    ok = len(cf2) == 1 and len(cf1) == 1
    if ok:
        lo2 = proto.version_bounds_of_conn(impl, cf2[0].bb, cf2[0].call.args[0])[0]
        hi1 = proto.version_bounds_of_conn(impl, cf1[0].bb, cf1[0].call.args[0])[1]
        ok = lo2 is not None and lo2 == hi1 and lo2 == gated_b.get("CallFunction2")
    rep.check(ok, "C12-R3", impl.def_, "call-downgrade", "a call is forwarded as CallFunction2 exactly to callees from the version at which the broker itself accepts CallFunction2, as CallFunction below", detail={})
    ab = M["abort_call"]
    aa = [s for s in broker.sends(ab) if s.msg_type == "AbortFunctionCall"]
    rep.check(len(aa) == 1 and proto.version_bounds_of_conn(ab, aa[0].bb, aa[0].call.args[0])[0] == gated_c.get("AbortFunctionCall"), "C12-R3", ab.def_, "abort-gate",
              "AbortFunctionCall must be sent only to callees from the version at which clients accept it", detail={})

    # ---- R4 conversion before every send -------------------------------------------------------------------------
    n = 0
    for s in csends:
        n += 1
        ok = s.converted and any(re.match(r"^Continue=discr\(MessageOps::convert_value\((.*), Option::None\(\), ((upvar:)?self\.version|const:.*PROTOCOL_VERSION|const:aldrin_core::ProtocolVersion::V1_14)\)\)$", g) for g in s.guards)
        rep.check(ok, "C12-R4", "aldrin::client::Client::" + s.fn(), "convert-before-send:%s" % "|".join(sorted(s.kinds)), "a client transport send is not dominated by the conversion of its payload to the negotiated version", line=s.line, detail={"kinds": sorted(s.kinds)})
    rep.floor("C12-R4", "client transport sends", n, 20)
    n = 0
    for d, b in prog.bodies.items():
        if not d.startswith("aldrin_broker::") or "::test" in d:
            continue
        for c in b.calls:
            if c.name in ("send", "send_and_flush", "send_start") and "AsyncTransport" in (c.callee or ""):
                n += 1
                msg = sorted(b.describe(c.args[1]))
                conv = any(re.search(r"convert_value\(", m) for m in msg) or any(re.match(r"^Continue=discr\((MessageOps|VersionedMessage)::convert_value\(", g) for g in b.guard_strings(c.bb))
                rep.check(conv, "C12-R4", d, "convert-before-send", "a broker-side transport send does not go through payload conversion", line=c.line, detail={"msg": msg[:2]})
    rep.floor("C12-R4", "broker transport sends", n, 2)
    sm = prog.one(r"^aldrin_broker::conn::Connection::<T>::send_message::\{closure#0\}$")
    cv = [c for c in sm.calls if c.name == "convert_value"]
    rep.check(len(cv) == 1 and all_match(sm.describe(cv[0].args[1]), r"^upvar:self\.version$"), "C12-R4", sm.def_, "converts-to-connection-version", "the connection task must convert to its own negotiated version", detail={})
    vm = prog.one(r"^aldrin_broker::versioned_message::VersionedMessage::convert_value$")
    cv = [c for c in vm.calls if c.name == "convert_value"]
    rep.check(len(cv) == 1 and all_match(vm.describe(cv[0].args[1]), r"^self\.version$") and all_match(vm.describe(cv[0].args[2]), r"^to$"), "C12-R4", vm.def_, "from-originator-to-target", "VersionedMessage::convert_value must convert from the recorded originator version to the target version", detail={})

    # ---- R5 originator's version ------------------------------------------------------------------------------------
    payload_kinds = {"CallFunction", "CallFunction2", "CallFunctionReply", "EmitEvent", "ItemReceived"}
    n = 0
    for s in bsends:
        carries_client_payload = any(re.search(r"^req(\.value|\.result)?$", x) for f in ("value", "result") for x in s.fields.get(f, [])) or all_match(s.msg, r"^req$") and s.msg_type in payload_kinds
        if not carries_client_payload and s.version is None:
            continue
        if s.msg_type in ("UnsubscribeEvent",) and s.version is None:
            continue  # forwarded request without payload
        n += 1
        ok = s.version is not None and all(re.search(r"self\.conns\[id\]", v) for v in s.version)
        rep.check(ok, "C12-R5", s.body.def_, "originator-version:%s" % s.msg_type, "a forwarded client payload must be tagged with the ORIGINATING connection's version (conns[id]); tagged with %s" % (sorted(s.version) if s.version else None), line=s.line,
                  detail={"version": sorted(s.version) if s.version else None})
    rep.floor("C12-R5", "forwarded payload sends", n, 5)

    # ---- R6 downgrade --------------------------------------------------------------------------------------------------
    cs2 = M["create_service2"]
    ss = [c for c in cs2.calls if c.name == "set_subscribe_all"]
    ok = len(ss) == 1 and proto.version_bounds(cs2.guard_strings(ss[0].bb), MAIN_ID_VERSION)[1] == 18 and any_match(cs2.describe(ss[0].args[1]), r"false")
    rep.check(ok, "C12-R6", cs2.def_, "subscribe-all-cleared-below-1.18", "create_service2 must clear subscribe_all for owners below 1.18", detail={})
    sa = M["subscribe_all_events"]
    ns = [s for s in broker.sends(sa) if any_match(s.fields.get("result", []), r"NotSupported")]
    tc = [c for c in sa.calls if c.name in ("get", "get_mut") and any_match(sa.describe(c.args[1]), r"^Object::conn_id\(")]
    ok = len(ns) == 2 and bool(tc) and any(any(proto.version_bounds_of_conn(sa, s.bb, ["c", t.dest])[1] == 18 for t in tc) for s in ns)
    rep.check(ok, "C12-R6", sa.def_, "not-supported-for-old-owner", "subscribe_all_events must answer NotSupported when the owner is below 1.18", detail={"sites": len(ns)})
