//! rustc_private driver: dumps resolved program facts (ADTs, impls, pre-coroutine MIR of every
//! body) of the crate being compiled as one JSON file. Used as RUSTC_WORKSPACE_WRAPPER under
//! `cargo +nightly check`. No aldrin code is executed; the facts are what rustc's front end,
//! type checker and MIR builder computed for the real build configuration.
#![feature(rustc_private)]
#![allow(clippy::all)]

extern crate rustc_abi;
extern crate rustc_data_structures;
extern crate rustc_driver;
extern crate rustc_hir;
extern crate rustc_interface;
extern crate rustc_middle;
extern crate rustc_span;

use rustc_driver::{Callbacks, Compilation};
use rustc_hir::def::DefKind;
use rustc_hir::def_id::{DefId, LocalDefId};
use rustc_interface::interface::Compiler;
use rustc_middle::mir::{
    AggregateKind, BasicBlock, Body, Const, Operand, Place, ProjectionElem, Rvalue, StatementKind,
    TerminatorKind, UnwindAction,
};
use rustc_middle::ty::print::{with_crate_prefix, with_no_trimmed_paths, PrintTraitRefExt};
use rustc_middle::ty::{self, GenericArgsRef, Instance, Ty, TyCtxt, TypingEnv};
use rustc_span::Span;
use std::fmt::Write as _;

fn esc(s: &str) -> String {
    let mut o = String::with_capacity(s.len() + 2);
    o.push('"');
    for c in s.chars() {
        match c {
            '"' => o.push_str("\\\""),
            '\\' => o.push_str("\\\\"),
            '\n' => o.push_str("\\n"),
            '\r' => o.push_str("\\r"),
            '\t' => o.push_str("\\t"),
            c if (c as u32) < 0x20 => {
                let _ = write!(o, "\\u{:04x}", c as u32);
            }
            c => o.push(c),
        }
    }
    o.push('"');
    o
}

fn opt(s: Option<String>) -> String {
    match s {
        Some(s) => esc(&s),
        None => "null".to_string(),
    }
}

struct Cx<'tcx> {
    tcx: TyCtxt<'tcx>,
    krate: String,
}

/// `with_crate_prefix!` prints local items as `crate::…`; make that the real crate name so that
/// paths are the same no matter which crate printed them.
fn fixc(s: String, krate: &str) -> String {
    if !s.contains("crate::") {
        return s;
    }
    let mut o = String::with_capacity(s.len() + 16);
    let b = s.as_bytes();
    let mut i = 0;
    while i < b.len() {
        if s[i..].starts_with("crate::")
            && (i == 0 || !(b[i - 1].is_ascii_alphanumeric() || b[i - 1] == b'_'))
        {
            o.push_str(krate);
            o.push_str("::");
            i += 7;
        } else {
            let ch = s[i..].chars().next().unwrap();
            o.push(ch);
            i += ch.len_utf8();
        }
    }
    o
}

impl<'tcx> Cx<'tcx> {
    fn path(&self, did: DefId) -> String {
        fixc(with_crate_prefix!(with_no_trimmed_paths!(self.tcx.def_path_str(did))), &self.krate)
    }

    fn path_args(&self, did: DefId, args: GenericArgsRef<'tcx>) -> String {
        fixc(with_crate_prefix!(with_no_trimmed_paths!(self.tcx.def_path_str_with_args(did, args))), &self.krate)
    }

    fn ty(&self, t: Ty<'tcx>) -> String {
        fixc(with_crate_prefix!(with_no_trimmed_paths!(t.to_string())), &self.krate)
    }

    /// def path of the ADT behind references / boxes-by-name, if any
    fn adt_of(&self, t: Ty<'tcx>) -> Option<String> {
        let mut t = t;
        loop {
            match t.kind() {
                ty::Ref(_, inner, _) => t = *inner,
                ty::RawPtr(inner, _) => t = *inner,
                ty::Adt(def, _) => return Some(self.path(def.did())),
                _ => return None,
            }
        }
    }

    fn span(&self, sp: Span) -> String {
        let sm = self.tcx.sess.source_map();
        // Use the call-site of macro expansions so that the line points into the crate's source.
        let sp0 = sp.source_callsite();
        let lo = sm.lookup_char_pos(sp0.lo());
        let file = match &lo.file.name {
            rustc_span::FileName::Real(r) => match r.local_path() {
                Some(p) => p.to_string_lossy().to_string(),
                None => format!("{:?}", r),
            },
            other => format!("{:?}", other),
        };
        format!("{}:{}", file, lo.line)
    }

    fn macro_of(&self, sp: Span) -> Option<String> {
        if !sp.from_expansion() {
            return None;
        }
        // outermost user-visible macro chain, innermost first
        let mut names = Vec::new();
        let mut cur = sp;
        let mut guard = 0;
        while cur.from_expansion() && guard < 16 {
            let data = cur.ctxt().outer_expn_data();
            match data.kind {
                rustc_span::ExpnKind::Macro(_, name) => names.push(name.to_string()),
                rustc_span::ExpnKind::Desugaring(d) => names.push(format!("desugar:{:?}", d)),
                rustc_span::ExpnKind::AstPass(p) => names.push(format!("astpass:{:?}", p)),
                rustc_span::ExpnKind::Root => {}
            }
            cur = data.call_site;
            guard += 1;
        }
        Some(names.join("<"))
    }

    fn place(&self, body: &Body<'tcx>, p: &Place<'tcx>) -> String {
        let mut s = format!("[{}", p.local.as_usize());
        for (base, elem) in p.iter_projections() {
            s.push(',');
            match elem {
                ProjectionElem::Deref => s.push_str("\"*\""),
                ProjectionElem::Field(f, _) => {
                    let bty = base.ty(&body.local_decls, self.tcx);
                    let name = match bty.ty.kind() {
                        ty::Adt(def, _) => {
                            let vidx = bty.variant_index.unwrap_or(rustc_abi::FIRST_VARIANT);
                            if def.is_enum() || def.is_struct() || def.is_union() {
                                def.variants()
                                    .get(vidx)
                                    .and_then(|v| v.fields.get(f))
                                    .map(|fd| fd.name.to_string())
                            } else {
                                None
                            }
                        }
                        _ => None,
                    };
                    match name {
                        Some(n) => s.push_str(&esc(&format!(".{}", n))),
                        None => s.push_str(&esc(&format!(".{}", f.as_usize()))),
                    }
                }
                ProjectionElem::Index(l) => s.push_str(&esc(&format!("[_{}]", l.as_usize()))),
                ProjectionElem::ConstantIndex { offset, from_end, .. } => {
                    s.push_str(&esc(&format!("[c{}{}]", if from_end { "-" } else { "" }, offset)))
                }
                ProjectionElem::Subslice { from, to, from_end } => {
                    s.push_str(&esc(&format!("[s{}:{}{}]", from, if from_end { "-" } else { "" }, to)))
                }
                ProjectionElem::Downcast(name, vidx) => {
                    let n = match name {
                        Some(n) => n.to_string(),
                        None => format!("{}", vidx.as_usize()),
                    };
                    s.push_str(&esc(&format!("@{}", n)))
                }
                ProjectionElem::OpaqueCast(_) => s.push_str("\"~opaque\""),
                ProjectionElem::UnwrapUnsafeBinder(_) => s.push_str("\"~unbind\""),
            }
        }
        s.push(']');
        s
    }

    fn konst(&self, c: &Const<'tcx>) -> String {
        // {"ty":..., "repr":..., "fn":{...}?, "def":..., "int":...}
        let ty = c.ty();
        let mut s = String::from("{");
        let _ = write!(s, "\"ty\":{}", esc(&self.ty(ty)));
        let repr = fixc(with_crate_prefix!(with_no_trimmed_paths!(format!("{}", c))), &self.krate);
        let _ = write!(s, ",\"repr\":{}", esc(&repr));
        match ty.kind() {
            ty::FnDef(did, args) => {
                let _ = write!(s, ",\"fn\":{}", self.fn_ref(*did, args, None));
            }
            _ => {}
        }
        match c {
            Const::Unevaluated(uv, _) => {
                let _ = write!(s, ",\"def\":{}", esc(&self.path(uv.def)));
                if !uv.args.is_empty() {
                    let _ = write!(s, ",\"defargs\":{}", esc(&self.path_args(uv.def, uv.args)));
                }
                if let Some(p) = uv.promoted {
                    let _ = write!(s, ",\"promoted\":{}", p.as_usize());
                }
            }
            Const::Val(..) | Const::Ty(..) => {}
        }
        if let Const::Val(rustc_middle::mir::ConstValue::Scalar(sc), _) = c {
            if let rustc_middle::mir::interpret::Scalar::Int(i) = sc {
                if ty.is_integral() || ty.is_bool() || ty.is_char() {
                    let bits = i.to_bits_unchecked();
                    let _ = write!(s, ",\"int\":{}", esc(&bits.to_string()));
                }
            }
        }
        s.push('}');
        s
    }

    fn fn_ref(
        &self,
        did: DefId,
        args: GenericArgsRef<'tcx>,
        env: Option<TypingEnv<'tcx>>,
    ) -> String {
        let tcx = self.tcx;
        let mut s = String::from("{");
        let _ = write!(s, "\"def\":{}", esc(&self.path(did)));
        let _ = write!(s, ",\"full\":{}", esc(&self.path_args(did, args)));
        s.push_str(",\"args\":[");
        for (i, a) in args.iter().enumerate() {
            if i > 0 {
                s.push(',');
            }
            let txt = fixc(with_crate_prefix!(with_no_trimmed_paths!(format!("{}", a))), &self.krate);
            s.push_str(&esc(&txt));
        }
        s.push(']');
        // trait / impl container
        if let Some(assoc) = tcx.opt_associated_item(did) {
            let cont = assoc.container_id(tcx);
            match tcx.def_kind(cont) {
                DefKind::Trait => {
                    let _ = write!(s, ",\"trait\":{}", esc(&self.path(cont)));
                    if !args.is_empty() {
                        if let Some(t) = args.get(0).and_then(|a| a.as_type()) {
                            let _ = write!(s, ",\"self_ty\":{}", esc(&self.ty(t)));
                            if let Some(a) = self.adt_of(t) {
                                let _ = write!(s, ",\"self_adt\":{}", esc(&a));
                            }
                        }
                    }
                }
                DefKind::Impl { .. } => {
                    let _ = write!(s, ",\"impl\":{}", esc(&self.path(cont)));
                    let st = tcx.type_of(cont).instantiate_identity().skip_norm_wip();
                    let _ = write!(s, ",\"impl_self\":{}", esc(&self.ty(st)));
                    if let Some(a) = self.adt_of(st) {
                        let _ = write!(s, ",\"self_adt\":{}", esc(&a));
                    }
                    if let Some(tr) = tcx.impl_opt_trait_ref(cont) {
                        let tr = tr.instantiate_identity().skip_norm_wip();
                        let _ = write!(s, ",\"impl_trait\":{}", esc(&self.path(tr.def_id)));
                    }
                }
                _ => {}
            }
            let _ = write!(s, ",\"name\":{}", esc(&assoc.name().to_string()));
        } else {
            let _ = write!(s, ",\"name\":{}", esc(&tcx.item_name(did).to_string()));
        }
        if let Some(env) = env {
            if matches!(tcx.def_kind(did), DefKind::Fn | DefKind::AssocFn) {
                // Only try to resolve when no inference/escaping stuff is around.
                let r = std::panic::catch_unwind(std::panic::AssertUnwindSafe(|| {
                    Instance::try_resolve(tcx, env, did, args)
                }));
                if let Ok(Ok(Some(inst))) = r {
                    let rd = inst.def_id();
                    if rd != did {
                        let _ = write!(s, ",\"resolved\":{}", esc(&self.path(rd)));
                        let _ = write!(
                            s,
                            ",\"resolved_args\":{}",
                            esc(&self.path_args(rd, inst.args))
                        );
                    }
                    let kind = match inst.def {
                        ty::InstanceKind::Item(_) => "item",
                        ty::InstanceKind::Virtual(..) => "virtual",
                        ty::InstanceKind::ClosureOnceShim { .. } => "closure_once",
                        ty::InstanceKind::FnPtrShim(..) => "fnptr",
                        ty::InstanceKind::CloneShim(..) => "clone",
                        ty::InstanceKind::DropGlue(..) => "drop",
                        ty::InstanceKind::Intrinsic(..) => "intrinsic",
                        _ => "other",
                    };
                    let _ = write!(s, ",\"inst\":{}", esc(kind));
                }
            }
        }
        s.push('}');
        s
    }

    fn operand(&self, body: &Body<'tcx>, o: &Operand<'tcx>) -> String {
        match o {
            Operand::Copy(p) => format!("[\"c\",{}]", self.place(body, p)),
            Operand::Move(p) => format!("[\"m\",{}]", self.place(body, p)),
            Operand::Constant(c) => format!("[\"k\",{}]", self.konst(&c.const_)),
            #[allow(unreachable_patterns)]
            _ => "[\"?\"]".to_string(),
        }
    }

    fn adt_variants(&self, t: Ty<'tcx>) -> String {
        // [[name, discr], ...] for enums
        let mut s = String::from("[");
        if let ty::Adt(def, _) = t.kind() {
            if def.is_enum() {
                let mut first = true;
                for (vidx, discr) in def.discriminants(self.tcx) {
                    if !first {
                        s.push(',');
                    }
                    first = false;
                    let v = def.variant(vidx);
                    let _ = write!(s, "[{},{}]", esc(&v.name.to_string()), esc(&discr.val.to_string()));
                }
            }
        }
        s.push(']');
        s
    }

    fn rvalue(&self, body: &Body<'tcx>, rv: &Rvalue<'tcx>) -> String {
        let tcx = self.tcx;
        match rv {
            Rvalue::Use(o, _) => format!("{{\"k\":\"use\",\"o\":[{}]}}", self.operand(body, o)),
            Rvalue::Repeat(o, n) => {
                let n = with_no_trimmed_paths!(format!("{}", n));
                format!("{{\"k\":\"repeat\",\"o\":[{}],\"n\":{}}}", self.operand(body, o), esc(&n))
            }
            Rvalue::Ref(_, bk, p) => {
                let m = match bk {
                    rustc_middle::mir::BorrowKind::Shared => "shared",
                    rustc_middle::mir::BorrowKind::Fake(_) => "fake",
                    rustc_middle::mir::BorrowKind::Mut { .. } => "mut",
                };
                format!("{{\"k\":\"ref\",\"m\":{},\"p\":{}}}", esc(m), self.place(body, p))
            }
            Rvalue::ThreadLocalRef(d) => format!("{{\"k\":\"tls\",\"def\":{}}}", esc(&self.path(*d))),
            Rvalue::RawPtr(_, p) => format!("{{\"k\":\"rawptr\",\"p\":{}}}", self.place(body, p)),
            Rvalue::Cast(ck, o, t) => format!(
                "{{\"k\":\"cast\",\"ck\":{},\"o\":[{}],\"ty\":{}}}",
                esc(&format!("{:?}", ck)),
                self.operand(body, o),
                esc(&self.ty(*t))
            ),
            Rvalue::BinaryOp(op, ab) => format!(
                "{{\"k\":\"bin\",\"op\":{},\"o\":[{},{}]}}",
                esc(&format!("{:?}", op)),
                self.operand(body, &ab.0),
                self.operand(body, &ab.1)
            ),
            Rvalue::UnaryOp(op, o) => format!(
                "{{\"k\":\"un\",\"op\":{},\"o\":[{}]}}",
                esc(&format!("{:?}", op)),
                self.operand(body, o)
            ),
            Rvalue::Discriminant(p) => {
                let pty = p.ty(&body.local_decls, tcx).ty;
                format!(
                    "{{\"k\":\"discr\",\"p\":{},\"adt\":{},\"variants\":{}}}",
                    self.place(body, p),
                    opt(self.adt_of(pty)),
                    self.adt_variants(pty)
                )
            }
            Rvalue::Aggregate(kind, ops) => {
                let mut s = String::from("{\"k\":\"agg\"");
                match &**kind {
                    AggregateKind::Array(_) => s.push_str(",\"ak\":\"array\""),
                    AggregateKind::Tuple => s.push_str(",\"ak\":\"tuple\""),
                    AggregateKind::Adt(did, vidx, _args, _, active) => {
                        let def = tcx.adt_def(*did);
                        let v = def.variant(*vidx);
                        let _ = write!(
                            s,
                            ",\"ak\":\"adt\",\"adt\":{},\"variant\":{}",
                            esc(&self.path(*did)),
                            esc(&v.name.to_string())
                        );
                        s.push_str(",\"fields\":[");
                        if let Some(a) = active {
                            s.push_str(&esc(&v.fields[*a].name.to_string()));
                        } else {
                            for (i, f) in v.fields.iter().enumerate() {
                                if i > 0 {
                                    s.push(',');
                                }
                                s.push_str(&esc(&f.name.to_string()));
                            }
                        }
                        s.push(']');
                    }
                    AggregateKind::Closure(did, _) => {
                        let _ = write!(s, ",\"ak\":\"closure\",\"def\":{}", esc(&self.path(*did)));
                    }
                    AggregateKind::Coroutine(did, _) => {
                        let _ = write!(s, ",\"ak\":\"coroutine\",\"def\":{}", esc(&self.path(*did)));
                    }
                    AggregateKind::CoroutineClosure(did, _) => {
                        let _ = write!(s, ",\"ak\":\"coroutine_closure\",\"def\":{}", esc(&self.path(*did)));
                    }
                    AggregateKind::RawPtr(..) => s.push_str(",\"ak\":\"rawptr\""),
                }
                s.push_str(",\"o\":[");
                for (i, o) in ops.iter().enumerate() {
                    if i > 0 {
                        s.push(',');
                    }
                    s.push_str(&self.operand(body, o));
                }
                s.push_str("]}");
                s
            }
            Rvalue::CopyForDeref(p) => format!("{{\"k\":\"use\",\"o\":[[\"c\",{}]],\"cfd\":true}}", self.place(body, p)),
            Rvalue::WrapUnsafeBinder(o, _) => format!("{{\"k\":\"use\",\"o\":[{}]}}", self.operand(body, o)),
            #[allow(unreachable_patterns)]
            _ => "{\"k\":\"other\"}".to_string(),
        }
    }

    fn unwind(&self, u: &UnwindAction) -> String {
        match u {
            UnwindAction::Cleanup(bb) => format!("{}", bb.as_usize()),
            _ => "null".to_string(),
        }
    }

    fn bb(&self, b: BasicBlock) -> usize {
        b.as_usize()
    }

    fn body(&self, ldid: LocalDefId, body: &Body<'tcx>) -> String {
        let tcx = self.tcx;
        let did = ldid.to_def_id();
        let env = TypingEnv::post_analysis(tcx, did);
        let mut s = String::from("{");
        let _ = write!(s, "\"def\":{}", esc(&self.path(did)));
        let dk = tcx.def_kind(did);
        let _ = write!(s, ",\"kind\":{}", esc(&format!("{:?}", dk)));
        let _ = write!(s, ",\"span\":{}", esc(&self.span(body.span)));
        let _ = write!(s, ",\"exp\":{}", opt(self.macro_of(tcx.def_span(did))));
        let _ = write!(s, ",\"coroutine\":{}", body.coroutine.is_some());
        if matches!(dk, DefKind::Closure) || tcx.is_typeck_child(did) {
            let parent = tcx.typeck_root_def_id(did);
            let _ = write!(s, ",\"root\":{}", esc(&self.path(parent)));
        }
        if matches!(dk, DefKind::Fn | DefKind::AssocFn) {
            let vis = tcx.visibility(did);
            let _ = write!(s, ",\"pub\":{}", vis.is_public());
            let asy = tcx.asyncness(did).is_async();
            let _ = write!(s, ",\"async\":{}", asy);
        }
        if let Some(assoc) = tcx.opt_associated_item(did) {
            let cont = assoc.container_id(tcx);
            if let DefKind::Impl { .. } = tcx.def_kind(cont) {
                let st = tcx.type_of(cont).instantiate_identity().skip_norm_wip();
                let _ = write!(s, ",\"impl\":{}", esc(&self.path(cont)));
                let _ = write!(s, ",\"impl_self\":{}", esc(&self.ty(st)));
                if let Some(a) = self.adt_of(st) {
                    let _ = write!(s, ",\"self_adt\":{}", esc(&a));
                }
                if let Some(tr) = tcx.impl_opt_trait_ref(cont) {
                    let tr = tr.instantiate_identity().skip_norm_wip();
                    let _ = write!(s, ",\"impl_trait\":{}", esc(&self.path(tr.def_id)));
                    let _ = write!(s, ",\"impl_trait_full\":{}", esc(&fixc(with_crate_prefix!(with_no_trimmed_paths!(format!("{}", tr.print_only_trait_path()))), &self.krate)));
                }
            } else if let DefKind::Trait = tcx.def_kind(cont) {
                let _ = write!(s, ",\"trait\":{}", esc(&self.path(cont)));
            }
            let _ = write!(s, ",\"name\":{}", esc(&assoc.name().to_string()));
        } else if let Some(n) = tcx.opt_item_name(did) {
            let _ = write!(s, ",\"name\":{}", esc(&n.to_string()));
        }
        // generic parameter names (parents first), in the order of the generic arguments at call sites
        {
            let mut names: Vec<String> = Vec::new();
            let mut stack = Vec::new();
            let mut cur = Some(tcx.typeck_root_def_id(did));
            while let Some(d) = cur {
                let g = tcx.generics_of(d);
                stack.push(g);
                cur = g.parent;
            }
            for g in stack.iter().rev() {
                for p in &g.own_params {
                    names.push(p.name.to_string());
                }
            }
            s.push_str(",\"generics\":[");
            for (i, n) in names.iter().enumerate() {
                if i > 0 {
                    s.push(',');
                }
                s.push_str(&esc(n));
            }
            s.push(']');
        }
        let _ = write!(s, ",\"argc\":{}", body.arg_count);
        // locals
        let mut names: Vec<Option<String>> = vec![None; body.local_decls.len()];
        for vdi in &body.var_debug_info {
            if let rustc_middle::mir::VarDebugInfoContents::Place(p) = &vdi.value {
                if p.projection.is_empty() {
                    names[p.local.as_usize()] = Some(vdi.name.to_string());
                }
            }
        }
        s.push_str(",\"locals\":[");
        for (i, (l, decl)) in body.local_decls.iter_enumerated().enumerate() {
            if i > 0 {
                s.push(',');
            }
            let _ = write!(
                s,
                "{{\"ty\":{},\"adt\":{},\"name\":{},\"user\":{}}}",
                esc(&self.ty(decl.ty)),
                opt(self.adt_of(decl.ty)),
                opt(names[l.as_usize()].clone()),
                decl.is_user_variable()
            );
        }
        s.push(']');
        // upvar debug info (closures): names of captured fields of _1
        s.push_str(",\"upvars\":[");
        let mut first = true;
        for vdi in &body.var_debug_info {
            if let rustc_middle::mir::VarDebugInfoContents::Place(p) = &vdi.value {
                if !p.projection.is_empty() {
                    if !first {
                        s.push(',');
                    }
                    first = false;
                    let _ = write!(s, "[{},{}]", esc(&vdi.name.to_string()), self.place(body, p));
                }
            }
        }
        s.push(']');
        // blocks
        s.push_str(",\"blocks\":[");
        for (bi, (_bb, data)) in body.basic_blocks.iter_enumerated().enumerate() {
            if bi > 0 {
                s.push(',');
            }
            s.push_str("{\"s\":[");
            let mut first = true;
            for st in &data.statements {
                let txt = match &st.kind {
                    StatementKind::Assign(b) => {
                        let (p, rv) = &**b;
                        Some(format!(
                            "{{\"d\":{},\"r\":{},\"l\":{},\"x\":{}}}",
                            self.place(body, p),
                            self.rvalue(body, rv),
                            esc(&self.span(st.source_info.span)),
                            opt(self.macro_of(st.source_info.span))
                        ))
                    }
                    StatementKind::SetDiscriminant { place, variant_index } => Some(format!(
                        "{{\"d\":{},\"r\":{{\"k\":\"setdiscr\",\"v\":{}}},\"l\":{},\"x\":null}}",
                        self.place(body, place),
                        variant_index.as_usize(),
                        esc(&self.span(st.source_info.span))
                    )),
                    _ => None,
                };
                if let Some(t) = txt {
                    if !first {
                        s.push(',');
                    }
                    first = false;
                    s.push_str(&t);
                }
            }
            s.push_str("],\"t\":");
            let term = data.terminator();
            let tspan = term.source_info.span;
            let mut t = String::from("{");
            match &term.kind {
                TerminatorKind::Goto { target } => {
                    let _ = write!(t, "\"k\":\"goto\",\"t\":{}", self.bb(*target));
                }
                TerminatorKind::SwitchInt { discr, targets } => {
                    let _ = write!(t, "\"k\":\"switch\",\"d\":{},\"v\":[", self.operand(body, discr));
                    for (i, (v, bb)) in targets.iter().enumerate() {
                        if i > 0 {
                            t.push(',');
                        }
                        let _ = write!(t, "[{},{}]", esc(&v.to_string()), self.bb(bb));
                    }
                    let _ = write!(t, "],\"o\":{}", self.bb(targets.otherwise()));
                    let dty = discr.ty(&body.local_decls, tcx);
                    let _ = write!(t, ",\"dty\":{}", esc(&self.ty(dty)));
                }
                TerminatorKind::UnwindResume => t.push_str("\"k\":\"resume\""),
                TerminatorKind::UnwindTerminate(_) => t.push_str("\"k\":\"terminate\""),
                TerminatorKind::Return => t.push_str("\"k\":\"ret\""),
                TerminatorKind::Unreachable => t.push_str("\"k\":\"unreachable\""),
                TerminatorKind::Drop { place, target, unwind, .. } => {
                    let _ = write!(
                        t,
                        "\"k\":\"drop\",\"p\":{},\"t\":{},\"u\":{}",
                        self.place(body, place),
                        self.bb(*target),
                        self.unwind(unwind)
                    );
                }
                TerminatorKind::Call { func, args, destination, target, unwind, fn_span, .. } => {
                    t.push_str("\"k\":\"call\"");
                    match func {
                        Operand::Constant(c) => match c.const_.ty().kind() {
                            ty::FnDef(did, gargs) => {
                                let _ = write!(t, ",\"f\":{}", self.fn_ref(*did, gargs, Some(env)));
                            }
                            _ => {
                                let _ = write!(t, ",\"fo\":{}", self.operand(body, func));
                            }
                        },
                        _ => {
                            let _ = write!(t, ",\"fo\":{}", self.operand(body, func));
                            let fty = func.ty(&body.local_decls, tcx);
                            let _ = write!(t, ",\"fty\":{}", esc(&self.ty(fty)));
                        }
                    }
                    t.push_str(",\"a\":[");
                    for (i, a) in args.iter().enumerate() {
                        if i > 0 {
                            t.push(',');
                        }
                        t.push_str(&self.operand(body, &a.node));
                    }
                    let _ = write!(
                        t,
                        "],\"d\":{},\"t\":{},\"u\":{},\"fl\":{}",
                        self.place(body, destination),
                        match target {
                            Some(b) => format!("{}", self.bb(*b)),
                            None => "null".to_string(),
                        },
                        self.unwind(unwind),
                        esc(&self.span(*fn_span))
                    );
                }
                TerminatorKind::TailCall { .. } => t.push_str("\"k\":\"tailcall\""),
                TerminatorKind::Assert { cond, expected, msg, target, unwind } => {
                    let m = format!("{:?}", std::mem::discriminant(&**msg));
                    let kind = match &**msg {
                        rustc_middle::mir::AssertKind::BoundsCheck { .. } => "bounds",
                        rustc_middle::mir::AssertKind::Overflow(..) => "overflow",
                        rustc_middle::mir::AssertKind::OverflowNeg(..) => "overflow_neg",
                        rustc_middle::mir::AssertKind::DivisionByZero(..) => "div0",
                        rustc_middle::mir::AssertKind::RemainderByZero(..) => "rem0",
                        _ => "other",
                    };
                    let _ = m;
                    let _ = write!(
                        t,
                        "\"k\":\"assert\",\"c\":{},\"e\":{},\"t\":{},\"u\":{},\"m\":{}",
                        self.operand(body, cond),
                        expected,
                        self.bb(*target),
                        self.unwind(unwind),
                        esc(kind)
                    );
                }
                TerminatorKind::Yield { value, resume, resume_arg, drop } => {
                    let _ = write!(
                        t,
                        "\"k\":\"yield\",\"o\":{},\"t\":{},\"d\":{},\"drop\":{}",
                        self.operand(body, value),
                        self.bb(*resume),
                        self.place(body, resume_arg),
                        match drop {
                            Some(b) => format!("{}", self.bb(*b)),
                            None => "null".to_string(),
                        }
                    );
                }
                TerminatorKind::CoroutineDrop => t.push_str("\"k\":\"coroutine_drop\""),
                TerminatorKind::FalseEdge { real_target, imaginary_target } => {
                    let _ = write!(
                        t,
                        "\"k\":\"false_edge\",\"t\":{},\"imag\":{}",
                        self.bb(*real_target),
                        self.bb(*imaginary_target)
                    );
                }
                TerminatorKind::FalseUnwind { real_target, unwind } => {
                    let _ = write!(
                        t,
                        "\"k\":\"false_unwind\",\"t\":{},\"u\":{}",
                        self.bb(*real_target),
                        self.unwind(unwind)
                    );
                }
                TerminatorKind::InlineAsm { .. } => t.push_str("\"k\":\"asm\""),
            }
            let _ = write!(t, ",\"l\":{},\"x\":{}}}", esc(&self.span(tspan)), opt(self.macro_of(tspan)));
            s.push_str(&t);
            let _ = write!(s, ",\"c\":{}}}", data.is_cleanup);
        }
        s.push_str("]}");
        s
    }

    fn adts_and_impls(&self, out: &mut String) {
        let tcx = self.tcx;
        out.push_str("\"adts\":[");
        let mut first = true;
        for id in tcx.hir_free_items() {
            let did = id.owner_id.to_def_id();
            let dk = tcx.def_kind(did);
            if !matches!(dk, DefKind::Struct | DefKind::Enum | DefKind::Union) {
                continue;
            }
            let def = tcx.adt_def(did);
            if !first {
                out.push(',');
            }
            first = false;
            let _ = write!(
                out,
                "{{\"def\":{},\"kind\":{},\"span\":{},\"exp\":{},\"pub\":{},\"variants\":[",
                esc(&self.path(did)),
                esc(&format!("{:?}", dk)),
                esc(&self.span(tcx.def_span(did))),
                opt(self.macro_of(tcx.def_span(did))),
                tcx.visibility(did).is_public()
            );
            let discrs: Vec<String> = if def.is_enum() {
                def.discriminants(tcx).map(|(_, d)| d.val.to_string()).collect()
            } else {
                vec!["0".to_string()]
            };
            for (i, v) in def.variants().iter().enumerate() {
                if i > 0 {
                    out.push(',');
                }
                let _ = write!(
                    out,
                    "{{\"name\":{},\"discr\":{},\"fields\":[",
                    esc(&v.name.to_string()),
                    esc(discrs.get(i).map(|s| s.as_str()).unwrap_or("?"))
                );
                for (j, f) in v.fields.iter().enumerate() {
                    if j > 0 {
                        out.push(',');
                    }
                    let fty = tcx.type_of(f.did).instantiate_identity().skip_norm_wip();
                    let _ = write!(
                        out,
                        "{{\"name\":{},\"ty\":{},\"adt\":{},\"pub\":{}}}",
                        esc(&f.name.to_string()),
                        esc(&self.ty(fty)),
                        opt(self.adt_of(fty)),
                        f.vis.is_public()
                    );
                }
                out.push_str("]}");
            }
            out.push_str("]}");
        }
        out.push_str("],\"impls\":[");
        let mut first = true;
        for id in tcx.hir_free_items() {
            let did = id.owner_id.to_def_id();
            if !matches!(tcx.def_kind(did), DefKind::Impl { .. }) {
                continue;
            }
            if !first {
                out.push(',');
            }
            first = false;
            let st = tcx.type_of(did).instantiate_identity().skip_norm_wip();
            let _ = write!(
                out,
                "{{\"def\":{},\"self\":{},\"self_adt\":{},\"span\":{},\"exp\":{}",
                esc(&self.path(did)),
                esc(&self.ty(st)),
                opt(self.adt_of(st)),
                esc(&self.span(tcx.def_span(did))),
                opt(self.macro_of(tcx.def_span(did)))
            );
            if let Some(tr) = tcx.impl_opt_trait_ref(did) {
                let tr = tr.instantiate_identity().skip_norm_wip();
                let _ = write!(out, ",\"trait\":{}", esc(&self.path(tr.def_id)));
                let full = fixc(with_crate_prefix!(with_no_trimmed_paths!(format!("{}", tr.print_only_trait_path()))), &self.krate);
                let _ = write!(out, ",\"trait_full\":{}", esc(&full));
            }
            out.push_str(",\"items\":[");
            for (i, item) in tcx.associated_items(did).in_definition_order().enumerate() {
                if i > 0 {
                    out.push(',');
                }
                let kind = match item.kind {
                    ty::AssocKind::Const { .. } => "const",
                    ty::AssocKind::Fn { .. } => "fn",
                    ty::AssocKind::Type { .. } => "type",
                };
                let _ = write!(
                    out,
                    "{{\"name\":{},\"kind\":{},\"def\":{}",
                    esc(&item.name().to_string()),
                    esc(kind),
                    esc(&self.path(item.def_id))
                );
                if let ty::AssocKind::Type { .. } = item.kind {
                    let t = tcx.type_of(item.def_id).instantiate_identity().skip_norm_wip();
                    let _ = write!(out, ",\"ty\":{}", esc(&self.ty(t)));
                }
                out.push('}');
            }
            out.push_str("]}");
        }
        out.push_str("],\"traits\":[");
        let mut first = true;
        for id in tcx.hir_free_items() {
            let did = id.owner_id.to_def_id();
            if !matches!(tcx.def_kind(did), DefKind::Trait) {
                continue;
            }
            if !first {
                out.push(',');
            }
            first = false;
            let _ = write!(out, "{{\"def\":{},\"pub\":{},\"items\":[", esc(&self.path(did)), tcx.visibility(did).is_public());
            for (i, item) in tcx.associated_items(did).in_definition_order().enumerate() {
                if i > 0 {
                    out.push(',');
                }
                let _ = write!(
                    out,
                    "{{\"name\":{},\"def\":{},\"has_default\":{}}}",
                    esc(&item.name().to_string()),
                    esc(&self.path(item.def_id)),
                    item.defaultness(tcx).has_value()
                );
            }
            out.push_str("]}");
        }
        out.push(']');
    }
}

struct Cb {
    out_dir: Option<String>,
    tag: String,
    features: Vec<String>,
    is_test: bool,
}

type MirBuiltFn = for<'tcx> fn(TyCtxt<'tcx>, LocalDefId) -> &'tcx rustc_data_structures::steal::Steal<Body<'tcx>>;
static ORIG_MIR_BUILT: std::sync::OnceLock<MirBuiltFn> = std::sync::OnceLock::new();
/// Bodies cloned at the moment `mir_built` produced them (before any later pass steals them).
/// The `'tcx` lifetime is erased; the entries are only read back in `after_analysis`, while the
/// `TyCtxt` that owns the arenas is still alive.
static STASH: std::sync::Mutex<Vec<(LocalDefId, usize)>> = std::sync::Mutex::new(Vec::new());

fn my_mir_built<'tcx>(tcx: TyCtxt<'tcx>, ldid: LocalDefId) -> &'tcx rustc_data_structures::steal::Steal<Body<'tcx>> {
    let orig = ORIG_MIR_BUILT.get().expect("orig mir_built");
    let steal = orig(tcx, ldid);
    let body: Body<'tcx> = steal.borrow().clone();
    let boxed: Box<Body<'tcx>> = Box::new(body);
    let ptr = Box::into_raw(boxed) as usize;
    STASH.lock().unwrap().push((ldid, ptr));
    steal
}

impl Callbacks for Cb {
    fn config(&mut self, config: &mut rustc_interface::interface::Config) {
        if self.out_dir.is_some() {
            config.override_queries = Some(|_sess, providers| {
                let _ = ORIG_MIR_BUILT.set(providers.queries.mir_built);
                providers.queries.mir_built = my_mir_built;
            });
        }
    }

    fn after_analysis<'tcx>(&mut self, _c: &Compiler, tcx: TyCtxt<'tcx>) -> Compilation {
        let Some(dir) = self.out_dir.clone() else {
            return Compilation::Continue;
        };
        let crate_name = tcx.crate_name(rustc_hir::def_id::LOCAL_CRATE).to_string();
        if crate_name == "build_script_build" {
            return Compilation::Continue;
        }
        let only = std::env::var("VERIF_FACTS_CRATES").ok();
        if let Some(only) = only {
            if !only.split(',').any(|c| c == crate_name) {
                return Compilation::Continue;
            }
        }
        let stash: Vec<(LocalDefId, usize)> = std::mem::take(&mut *STASH.lock().unwrap());
        let mut bodies: Vec<(LocalDefId, Box<Body<'tcx>>)> = Vec::with_capacity(stash.len());
        for (ldid, ptr) in stash {
            // SAFETY: produced by Box::into_raw in my_mir_built for this very TyCtxt.
            let b: Box<Body<'tcx>> = unsafe { Box::from_raw(ptr as *mut Body<'tcx>) };
            bodies.push((ldid, b));
        }
        bodies.sort_by_key(|(l, _)| l.local_def_index.as_usize());
        // Test harness units re-compile the whole library; only the expansions of the codec
        // derives / hand-written codec impls inside them are used (corpus of C16), so keep just
        // the bodies that belong to impls of the codec traits.
        if self.is_test {
            bodies.retain(|(ldid, _)| {
                let root = tcx.typeck_root_def_id(ldid.to_def_id());
                if let Some(assoc) = tcx.opt_associated_item(root) {
                    let cont = assoc.container_id(tcx);
                    if let DefKind::Impl { .. } = tcx.def_kind(cont) {
                        if let Some(tr) = tcx.impl_opt_trait_ref(cont) {
                            let tr = tr.instantiate_identity().skip_norm_wip();
                            let name = tcx.item_name(tr.def_id).to_string();
                            return matches!(
                                name.as_str(),
                                "Serialize" | "Deserialize" | "Introspectable" | "SerializeKey" | "DeserializeKey"
                            );
                        }
                    }
                }
                false
            });
        }
        if tcx.dcx().has_errors().is_some() {
            return Compilation::Continue;
        }
        let cx = Cx { tcx, krate: crate_name.clone() };
        let mut out = String::with_capacity(1 << 24);
        out.push('{');
        let _ = write!(out, "\"crate\":{},\"is_test\":{},\"features\":[", esc(&crate_name), self.is_test);
        for (i, f) in self.features.iter().enumerate() {
            if i > 0 {
                out.push(',');
            }
            out.push_str(&esc(f));
        }
        out.push_str("],");
        cx.adts_and_impls(&mut out);
        out.push_str(",\"bodies\":[");
        for (i, (ldid, body)) in bodies.iter().enumerate() {
            if i > 0 {
                out.push_str(",\n");
            }
            out.push_str(&cx.body(*ldid, body));
        }
        out.push_str("]}");
        let fname = format!("{}/{}{}-{}.json", dir, crate_name, if self.is_test { "-test" } else { "" }, self.tag);
        let tmp = format!("{}.tmp{}", fname, std::process::id());
        std::fs::write(&tmp, out).expect("write facts");
        std::fs::rename(&tmp, &fname).expect("rename facts");
        Compilation::Continue
    }
}

fn main() {
    let mut args: Vec<String> = std::env::args().collect();
    // RUSTC_WORKSPACE_WRAPPER: argv[1] is the path of the real rustc
    if args.len() > 1 && (args[1].ends_with("rustc") || args[1].contains("/rustc")) {
        args.remove(1);
    }
    let mut features = Vec::new();
    let mut is_test = false;
    let mut tag = String::from("x");
    let mut it = args.iter().peekable();
    while let Some(a) = it.next() {
        if a == "--cfg" {
            if let Some(v) = it.peek() {
                if let Some(f) = v.strip_prefix("feature=") {
                    features.push(f.trim_matches('"').to_string());
                }
            }
        } else if a == "--test" {
            is_test = true;
        } else if a == "-C" {
            if let Some(v) = it.peek() {
                if let Some(m) = v.strip_prefix("metadata=") {
                    tag = m.to_string();
                }
            }
        } else if let Some(m) = a.strip_prefix("-Cmetadata=") {
            tag = m.to_string();
        }
    }
    let out_dir = std::env::var("VERIF_FACTS_DIR").ok();
    // Only real compilations (those with an input file) get the callbacks; `rustc -vV` etc. pass through.
    let mut cb = Cb { out_dir, tag, features, is_test };
    rustc_driver::run_compiler(&args, &mut cb);
}
