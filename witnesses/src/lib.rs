//! Closed-world witnesses: type-level facts the table rules rely on. Each `compile_fail` doctest
//! names its error code (checked on nightly only) and is paired with a compiling twin that differs
//! only in the offending line, so a witness whose path is merely wrong cannot pass.
//!
//! Run by `/verif/check --witnesses` with `cargo +nightly test --doc`.

/// W1 — `KeyTagImpl` is sealed: the key-tag tables of C01/C07/C13 are closed.
///
/// ```compile_fail,E0277
/// struct MyImpl;
/// impl aldrin_core::tags::KeyTagImpl for MyImpl {
///     type Key<'a> = u8;
/// }
/// ```
///
/// twin (the trait is nameable and usable as a bound):
/// ```
/// fn _f<T: aldrin_core::tags::KeyTagImpl>() {}
/// struct MyTag;
/// impl aldrin_core::tags::Tag for MyTag {}
/// ```
pub struct W1;

/// W2 — `MessageOps` is sealed: the message impls enumerated by C08 are the whole set.
///
/// ```compile_fail,E0277
/// struct MyMsg;
/// impl aldrin_core::message::MessageOps for MyMsg {}
/// ```
///
/// twin:
/// ```
/// fn _f<T: aldrin_core::message::MessageOps>() {}
/// struct MyMsg;
/// ```
pub struct W2;

/// W3a — `Deserializer::new` is crate-private: a user `Deserialize` impl cannot reset the depth.
///
/// ```compile_fail,E0624
/// let mut buf: &[u8] = &[0];
/// let _ = aldrin_core::Deserializer::new(&mut buf, 0);
/// ```
///
/// twin:
/// ```
/// let mut buf: &[u8] = &[0];
/// fn _f(_d: aldrin_core::Deserializer) {}
/// ```
pub struct W3a;

/// W3b — `Serializer::new` is crate-private.
///
/// ```compile_fail,E0624
/// let mut buf = bytes::BytesMut::new();
/// let _ = aldrin_core::Serializer::new(&mut buf, 0);
/// ```
///
/// twin:
/// ```
/// let mut buf = bytes::BytesMut::new();
/// fn _f(_s: aldrin_core::Serializer) {}
/// ```
pub struct W3b;

/// W4a — `SerializedValueSlice::new` is crate-private: the header invariant cannot be bypassed.
///
/// ```compile_fail,E0624
/// let _ = aldrin_core::SerializedValueSlice::new(&[0u8; 4]);
/// ```
///
/// twin:
/// ```
/// let _ = aldrin_core::SerializedValue::empty();
/// fn _f(_s: &aldrin_core::SerializedValueSlice) {}
/// ```
pub struct W4a;

/// W4b — `SerializedValue::from_bytes_mut` is crate-private.
///
/// ```compile_fail,E0624
/// let _ = aldrin_core::SerializedValue::from_bytes_mut(bytes::BytesMut::new());
/// ```
///
/// twin:
/// ```
/// let _ = bytes::BytesMut::new();
/// let _ = aldrin_core::SerializedValue::empty();
/// ```
pub struct W4b;

/// W5 — the broker's internal connection events are not exported.
///
/// ```compile_fail,E0603
/// use aldrin_broker::conn::ConnectionEvent;
/// ```
///
/// twin:
/// ```
/// use aldrin_broker::Connection;
/// ```
pub struct W5;
