#!/usr/bin/env python3
"""False-alarm test: apply each selftest/benign/*.patch (behaviour-preserving edit written by an independent
sub-agent) to a scratch copy of /repo, extract the whole-workspace facts of that copy ONCE and run every check
listed in the patch's `# properties:` header (or all registered checks with --all). Every check must stay silent.

  benign.py [--all] [patch-name-substring ...]
"""
import glob
import json
import os
import re
import shutil
import subprocess
import sys
import tempfile

HERE = os.path.dirname(os.path.dirname(os.path.abspath(__file__)))
sys.path.insert(0, os.path.join(HERE, "tools"))
from selftest import header  # noqa: E402


def main():
    args = [a for a in sys.argv[1:] if not a.startswith("--")]
    allp = "--all" in sys.argv
    registered = [c["property_id"] for c in json.load(open(os.path.join(HERE, "MANIFEST.json")))["checks"]]
    bad = 0
    n = 0
    for p in sorted(glob.glob(os.path.join(HERE, "selftest", "benign", "*.patch"))):
        if args and not any(a in os.path.basename(p) for a in args):
            continue
        h = header(p)
        props = registered if allp else [x.strip() for x in h.get("properties", "").split(",") if x.strip()]
        scratch = tempfile.mkdtemp(prefix="aldrin-benign-")
        try:
            subprocess.check_call(["rsync", "-a", "--exclude", "target", "--exclude", ".git", "/repo/", scratch + "/"])
            body = "".join(l for l in open(p) if not l.startswith("#"))
            r = subprocess.run(["patch", "-p1", "-s", "--no-backup-if-mismatch"], cwd=scratch, input=body, text=True, capture_output=True)
            if r.returncode != 0:
                print(json.dumps({"patch": os.path.basename(p), "ok": False, "why": "does not apply: " + (r.stdout + r.stderr)[-200:]}))
                bad += 1
                continue
            env = dict(os.environ, VERIF_REPO=scratch, VERIF_SELFTEST="1", VERIF_CONFIG="ws")
            for prop in props:
                n += 1
                r = subprocess.run([os.path.join(HERE, "check"), prop, "--tier", "quick"], cwd=HERE, env=env, capture_output=True, text=True)
                out = r.stdout + r.stderr
                fired = sorted(set(re.findall(r"^\S+: (C\d+-R\d+\w*) \[([^\]]*)\] ([^:]*):", out, re.M)))
                ok = r.returncode == 0 and "VIOLATION property=" not in out
                if not ok:
                    bad += 1
                print(json.dumps({"patch": os.path.basename(p), "property": prop, "ok": ok, "fired": fired[:6], "tail": "" if ok else out[-300:]}))
                sys.stdout.flush()
        finally:
            shutil.rmtree(scratch, ignore_errors=True)
    print("BENIGN: %d check runs, %d false alarms" % (n, bad))
    return 1 if bad else 0


if __name__ == "__main__":
    sys.exit(main())
