#!/usr/bin/env python3
"""debug aid: print MIR-lite of bodies matching a regex.  usage: show.py <facts_dir> <regex> [crate,...]"""
import sys, os
sys.path.insert(0, os.path.join(os.path.dirname(__file__), "..", "rules"))
import mir
d, rx = sys.argv[1], sys.argv[2]
crates = sys.argv[3].split(",") if len(sys.argv) > 3 else None
p = mir.Program(d, crates=crates)
for b in p.find(rx):
    print(mir.dump_body(b)); print()
