#!/usr/bin/env python3
"""Verify a seeded change delivered by a sub-agent and record it under /verif/seeded/<id>/.

  seedverify.py <id> <property> [--checks C02,C03,...]

Steps (all in a scratch worktree of /repo, removed afterwards):
  1. demo test passes on the unmodified tree
  2. demo test fails with the change
  3. the whole workspace test suite, with the change, fails only in the demo
  4. every registered check (or the listed ones) is run against the changed tree (VERIF_REPO)
"""
import json
import os
import re
import shutil
import subprocess
import sys

HERE = os.path.dirname(os.path.dirname(os.path.abspath(__file__)))


def sh(cmd, cwd, timeout=3600):
    p = subprocess.run(cmd, cwd=cwd, shell=True, capture_output=True, text=True, timeout=timeout, env=dict(os.environ, CARGO_NET_OFFLINE="true"))
    return p.returncode, p.stdout + p.stderr


def main():
    sid, prop = sys.argv[1], sys.argv[2]
    checks = None
    if "--checks" in sys.argv:
        checks = sys.argv[sys.argv.index("--checks") + 1].split(",")
    src = "/tmp/seed-out/" + sid
    meta = json.load(open(os.path.join(src, "meta.json")))
    wt = "/tmp/wtv-" + sid
    rec = {"id": sid, "property": prop, "agent_meta": meta}
    subprocess.run(["git", "-C", "/repo", "worktree", "remove", "--force", wt], capture_output=True)
    subprocess.check_call(["git", "-C", "/repo", "worktree", "add", "-q", wt, "HEAD"])
    try:
        rc, out = sh("git apply %s/demo.diff" % src, wt)
        if rc != 0:
            rec["error"] = "demo.diff does not apply: " + out[-300:]
            return rec
        demo_cmd = meta["demo_cmd"]
        demo_cmd = re.sub(r"^cd \S+ && ", "", demo_cmd)
        rc, out = sh(demo_cmd, wt)
        rec["demo_passes_without_change"] = (rc == 0)
        rec["demo_out_without"] = out[-400:]
        rc, out = sh("git apply %s/patch.diff" % src, wt)
        if rc != 0:
            rec["error"] = "patch.diff does not apply: " + out[-300:]
            return rec
        rc, out = sh(demo_cmd, wt)
        rec["demo_fails_with_change"] = (rc != 0)
        rec["demo_out_with"] = out[-600:]
        # whole suite with the change: only the demo may fail
        rc, out = sh("cargo test --offline --workspace --no-fail-fast 2>&1", wt, timeout=7200)
        failed = sorted(set(re.findall(r"^test (\S+) \.\.\. FAILED", out, re.M)))
        nres = re.findall(r"test result: \w+\. (\d+) passed; (\d+) failed", out)
        rec["suite_with_change"] = {"failed_tests": failed, "passed": sum(int(a) for a, b in nres), "failed": sum(int(b) for a, b in nres), "compiled": "error: could not compile" not in out}
        # our checks against the changed tree
        man = json.load(open(os.path.join(HERE, "MANIFEST.json")))
        ids = checks or [c["property_id"] for c in man["checks"]]
        fired = {}
        for pid in ids:
            env = dict(os.environ, VERIF_REPO=wt, VERIF_SELFTEST="1", VERIF_FULL_CONFIG="1")
            p = subprocess.run([os.path.join(HERE, "check"), pid, "--tier", "quick"], cwd=HERE, env=env, capture_output=True, text=True)
            o = p.stdout + p.stderr
            rules = sorted(set(re.findall(r"^\S+: (C\d+-R\d+\w*) \[[^\]]*\] ([^:]+):", o, re.M)))
            fired[pid] = {"exit": p.returncode, "violation": "VIOLATION property=" in o, "rules": ["%s %s" % r for r in rules][:12]}
        rec["checks"] = fired
        rec["detected_by"] = sorted(k for k, v in fired.items() if v["violation"])
        return rec
    finally:
        subprocess.run(["git", "-C", "/repo", "worktree", "remove", "--force", wt], capture_output=True)
        shutil.rmtree(wt, ignore_errors=True)


if __name__ == "__main__":
    rec = main()
    sid = sys.argv[1]
    out = os.path.join(HERE, "seeded", sid)
    os.makedirs(out, exist_ok=True)
    for f in ("patch.diff", "demo.diff"):
        if os.path.exists("/tmp/seed-out/%s/%s" % (sid, f)):
            shutil.copy("/tmp/seed-out/%s/%s" % (sid, f), os.path.join(out, f))
    json.dump({
        "id": sid,
        "property": rec.get("property"),
        "summary": rec.get("agent_meta", {}).get("summary"),
        "needs": rec.get("agent_meta", {}).get("needs"),
        "demo_cmd": rec.get("agent_meta", {}).get("demo_cmd"),
        "verified": {k: rec.get(k) for k in ("demo_passes_without_change", "demo_fails_with_change", "suite_with_change", "error")},
        "what_i_ran": "tools/seedverify.py: scratch worktree of /repo HEAD; demo without/with patch; cargo test --offline --workspace --no-fail-fast with patch; every registered check against the patched tree (VERIF_REPO)",
        "checks": rec.get("checks"),
        "detected_by": rec.get("detected_by"),
    }, open(os.path.join(out, "meta.json"), "w"), indent=1)
    print(json.dumps({k: rec.get(k) for k in ("id", "property", "demo_passes_without_change", "demo_fails_with_change", "suite_with_change", "detected_by", "error")}))
