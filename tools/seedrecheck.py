#!/usr/bin/env python3
"""Re-run every registered check against the seeded changes (seeded/<id>/patch.diff applied to a scratch copy of /repo,
one whole-workspace extraction per seed) and refresh the `checks` / `detected_by` part of seeded/<id>/meta.json.
The demo / test-suite part of the record (established once by seedverify.py) is left untouched.

  seedrecheck.py [id ...]"""
import glob
import json
import os
import re
import shutil
import subprocess
import sys
import tempfile

HERE = os.path.dirname(os.path.dirname(os.path.abspath(__file__)))


def main():
    want = sys.argv[1:]
    man = json.load(open(os.path.join(HERE, "MANIFEST.json")))
    ids = [c["property_id"] for c in man["checks"]]
    rev = subprocess.run(["git", "-C", HERE, "rev-parse", "--short", "HEAD"], capture_output=True, text=True).stdout.strip()
    for d in sorted(glob.glob(os.path.join(HERE, "seeded", "*"))):
        sid = os.path.basename(d)
        if want and sid not in want:
            continue
        scratch = tempfile.mkdtemp(prefix="aldrin-seed-")
        try:
            subprocess.check_call(["rsync", "-a", "--exclude", "target", "--exclude", ".git", "/repo/", scratch + "/"])
            r = subprocess.run(["patch", "-p1", "-s", "--no-backup-if-mismatch", "-i", os.path.join(d, "patch.diff")], cwd=scratch, capture_output=True, text=True)
            if r.returncode != 0:
                print(json.dumps({"id": sid, "error": "patch does not apply: " + (r.stdout + r.stderr)[-200:]}))
                continue
            env = dict(os.environ, VERIF_REPO=scratch, VERIF_SELFTEST="1", VERIF_CONFIG="ws")
            fired = {}
            for pid in ids:
                p = subprocess.run([os.path.join(HERE, "check"), pid, "--tier", "quick"], cwd=HERE, env=env, capture_output=True, text=True)
                o = p.stdout + p.stderr
                rules = sorted(set(re.findall(r"^\S+: (C\d+-R\d+\w*) \[[^\]]*\] ([^:]+):", o, re.M)))
                fired[pid] = {"exit": p.returncode, "violation": "VIOLATION property=" in o, "rules": ["%s %s" % x for x in rules][:12]}
                if p.returncode not in (0, 1) or (p.returncode == 1 and "VIOLATION property=" not in o):
                    fired[pid]["crash"] = o[-300:]
            m = json.load(open(os.path.join(d, "meta.json")))
            m["checks"] = fired
            m["detected_by"] = sorted(k for k, v in fired.items() if v["violation"])
            m["rechecked_at_verif_rev"] = rev
            json.dump(m, open(os.path.join(d, "meta.json"), "w"), indent=1)
            print(json.dumps({"id": sid, "property": m["property"], "detected_by": m["detected_by"], "crashes": [k for k, v in fired.items() if "crash" in v]}))
            sys.stdout.flush()
        finally:
            shutil.rmtree(scratch, ignore_errors=True)


if __name__ == "__main__":
    main()
