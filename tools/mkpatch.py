#!/usr/bin/env python3
"""mkpatch.py <out.patch> <file-in-repo> <header...> : reads a python expression/edit from stdin:
lines 'OLD<<<' ... '>>>NEW<<<' ... '>>>' pairs; applies them to the file in /repo, writes the diff, restores."""
import subprocess, sys
out, path = sys.argv[1], sys.argv[2]
hdr = sys.argv[3:]
spec = sys.stdin.read()
parts = spec.split("\n=====\n")
src = open("/repo/" + path).read()
new = src
for part in parts:
    old, rep = part.split("\n-----\n")
    old = old.strip("\n"); rep = rep.strip("\n")
    assert new.count(old) == 1, "pattern occurs %d times: %r" % (new.count(old), old[:80])
    new = new.replace(old, rep)
open("/repo/" + path, "w").write(new)
d = subprocess.run(["git", "-C", "/repo", "diff", "--", path], capture_output=True, text=True).stdout
subprocess.check_call(["git", "-C", "/repo", "checkout", "--", path])
open(out, "w").write("".join("# %s\n" % h for h in hdr) + d)
print("wrote", out, len(d.splitlines()), "lines")
