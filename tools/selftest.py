#!/usr/bin/env python3
"""Both-ways self-test of the checker.

  selftest.py <Cxx> [--benign]     run every patch of selftest/mutants/<Cxx>-*.patch (and, with
                                   --benign, selftest/benign/*.patch that list the property)

Each patch is applied to a scratch copy of /repo (outside /repo and /verif, removed afterwards), the
facts are re-extracted from that copy and the property's rules are run on it:
  * a mutant must compile and make the rule named in its `# expect:` header fire;
  * a benign patch (behaviour-preserving refactoring) must leave the property's rules silent.
Prints one JSON line per patch and a summary; exit 0 iff all expectations hold.
"""
import glob
import json
import os
import re
import shutil
import subprocess
import sys
import tempfile

HERE = os.path.dirname(os.path.dirname(os.path.abspath(__file__)))


def header(path):
    h = {}
    for line in open(path):
        if not line.startswith("#"):
            break
        m = re.match(r"#\s*(\w+):\s*(.*)$", line)
        if m:
            h[m.group(1)] = m.group(2).strip()
    return h


def run_one(prop, patch, expect):
    scratch = tempfile.mkdtemp(prefix="aldrin-selftest-")
    try:
        subprocess.check_call(["rsync", "-a", "--exclude", "target", "--exclude", ".git", "/repo/", scratch + "/"])
        body = "".join(l for l in open(patch) if not l.startswith("#"))
        p = subprocess.run(["patch", "-p1", "-s", "--no-backup-if-mismatch"], cwd=scratch, input=body, text=True, capture_output=True)
        if p.returncode != 0:
            return {"patch": os.path.basename(patch), "ok": False, "why": "patch does not apply: " + (p.stdout + p.stderr)[-300:]}
        env = dict(os.environ, VERIF_REPO=scratch, VERIF_SELFTEST="1")
        r = subprocess.run([os.path.join(HERE, "check"), prop, "--tier", "quick"], cwd=HERE, env=env, capture_output=True, text=True)
        out = r.stdout + r.stderr
        if "fact extraction failed" in out:
            return {"patch": os.path.basename(patch), "ok": False, "why": "patched tree does not compile", "tail": out[-400:]}
        fired = sorted(set(re.findall(r"^\S+: (C\d+-R\d+\w*) \[", out, re.M)))
        viol = "VIOLATION property=" in out
        if expect == "none":
            ok = (r.returncode == 0 and not viol)
            why = "silent" if ok else "false alarm: %s" % fired
        else:
            ok = viol and any(f.startswith(expect) for f in fired)
            why = "fired %s" % fired if ok else "expected %s, fired %s (exit %d)" % (expect, fired, r.returncode)
        return {"patch": os.path.basename(patch), "expect": expect, "ok": ok, "why": why, "fired": fired}
    finally:
        shutil.rmtree(scratch, ignore_errors=True)


def main():
    prop = sys.argv[1]
    benign = "--benign" in sys.argv
    patches = sorted(glob.glob(os.path.join(HERE, "selftest", "mutants", prop + "-*.patch")))
    jobs = [(p, header(p).get("expect", prop)) for p in patches]
    if benign:
        for p in sorted(glob.glob(os.path.join(HERE, "selftest", "benign", "*.patch"))):
            props = [x.strip() for x in header(p).get("properties", "").split(",")]
            if prop in props:
                jobs.append((p, "none"))
    results = []
    for (p, exp) in jobs:
        res = run_one(prop, p, exp)
        print(json.dumps(res))
        sys.stdout.flush()
        results.append(res)
    bad = [r for r in results if not r["ok"]]
    print("SELFTEST %s: %d patches, %d as expected, %d unexpected" % (prop, len(results), len(results) - len(bad), len(bad)))
    # restore evidence of the real tree is the caller's job (check rewrites it)
    return 1 if bad else 0


if __name__ == "__main__":
    sys.exit(main())
