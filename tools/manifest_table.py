# property table for gen_manifest.py: check(id, level text, technique, design section) / na(id, reason)
check("C07",
      "Static sibling cross-check of the value codec on rustc MIR: skip walker ≡ typed decoder per ValueKind (dispatch, widths, key tags, depth arguments), whole-container skip = element-skip*, every raw panicking buffer access in decode paths dominated by a length check on the same quantity, no input-sized pre-allocation. Decides these structural necessary conditions for every input byte string at once; does not decide absence of panics inside third-party crates or memory totals.",
      "static analysis: MIR path signatures (const-generic widths), sibling/table cross-checking, guard dominance", "DESIGN.md §3 C07")
na("C14", "fragmentation/backpressure independence quantifies over runtime chunkings of a byte stream and sequences of I/O return values; packetizer correctness is arithmetic over those lengths — no sound static argument in reach")
na("C15", "resolution of every pending future at every fault point is a liveness property over schedules and fault positions")
na("C17", "totality of the schema front end over all strings hinges on value ranges of span arithmetic, pest rule/AST agreement at ~100 unreachable!() sites and a third-party markdown parser")
na("C19", "eventual agreement of client-side discovery/lifetime views with the bus state is a property of event interleavings and re-creation histories")
check("C09",
      "Static path rules over the broker's synchronous handlers (rustc MIR, every success and error path enumerated): registry map mutations and their statistics gauges are co-mutated on every path; shutdown_connection covers every collection field of ConnectionState and feeds each to its removal helper; broker-shutdown fan-out, Shutdown-under-flag and run-loop exit guards; every exit of the connection task passes an end-of-life step that informs the broker. Decides these necessary conditions for all histories reaching those paths; does not decide 'no residual state' as a history invariant.",
      "static analysis: MIR path enumeration with event co-mutation counting, guard dominance, field-coverage matrix", "DESIGN.md §4 C09")
