#!/usr/bin/env python3
"""print the markdown table of seeded changes (seeded/*/meta.json) for DESIGN.md §10.4"""
import json, os, glob
HERE = os.path.dirname(os.path.dirname(os.path.abspath(__file__)))
print("| id | property | change (one line) | needs | caught by |")
print("|----|----------|-------------------|-------|-----------|")
for d in sorted(glob.glob(os.path.join(HERE, "seeded", "*"))):
    m = json.load(open(os.path.join(d, "meta.json")))
    det = [k for k, v in sorted(m.get("checks", {}).items()) if v.get("violation")]
    rules = sorted(set(r for k in det for r in m["checks"][k].get("rules", [])))
    summ = (m.get("summary") or "").split(". ")[0][:160]
    needs = (m.get("needs") or "").split(". ")[0][:120]
    print("| %s | %s | %s | %s | %s |" % (m["id"], m["property"], summ.replace("|", "/"), needs.replace("|", "/"), (", ".join(rules) or "**missed**")))
