#!/usr/bin/env python3
"""markdown table of the seeded changes (seeded/*/meta.json) for DESIGN.md §10.4; --write replaces the block between the
SEED_TABLE markers in DESIGN.md"""
import glob
import json
import os
import re
import sys

HERE = os.path.dirname(os.path.dirname(os.path.abspath(__file__)))


def table():
    rows = ["| id | property | change | needs | caught by (rules) | first run |", "|----|----------|--------|-------|-------------------|-----------|"]
    n = miss = 0
    for d in sorted(glob.glob(os.path.join(HERE, "seeded", "*"))):
        m = json.load(open(os.path.join(d, "meta.json")))
        n += 1
        det = [k for k, v in sorted((m.get("checks") or {}).items()) if v.get("violation")]
        rules = sorted(set(r.split(" ")[0] for k in det for r in m["checks"][k].get("rules", [])))
        own = m["property"] in det
        summ = re.split(r"(?<=[a-z\)])\. ", (m.get("summary") or ""))[0][:170].replace("|", "/").replace("\n", " ")
        needs = re.split(r"(?<=[a-z\)])\. ", (m.get("needs") or ""))[0][:110].replace("|", "/").replace("\n", " ")
        hist = m.get("history") or ("caught" if own else "")
        if not det:
            miss += 1
        rows.append("| %s | %s | %s | %s | %s%s | %s |" % (m["id"], m["property"], summ, needs, ", ".join(rules) or "**missed**", "" if own or not det else " (not by %s)" % m["property"], hist))
    rows.append("")
    rows.append("%d seeded changes verified; %d caught by at least one registered check, %d missed." % (n, n - miss, miss))
    return "\n".join(rows)


if __name__ == "__main__":
    t = table()
    if "--write" in sys.argv:
        p = os.path.join(HERE, "DESIGN.md")
        s = open(p).read()
        s = re.sub(r"<!-- SEED_TABLE_BEGIN -->.*<!-- SEED_TABLE_END -->", "<!-- SEED_TABLE_BEGIN -->\n" + t.replace("\\", "\\\\") + "\n<!-- SEED_TABLE_END -->", s, flags=re.S)
        open(p, "w").write(s)
    else:
        print(t)
