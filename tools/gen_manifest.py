#!/usr/bin/env python3
"""Regenerates MANIFEST.json from the table below (kept in one place so that it stays valid)."""
import json, os
HERE = os.path.dirname(os.path.dirname(os.path.abspath(__file__)))
NOTE = "Trusted: rustc nightly's MIR construction / type checking / const evaluation, cargo feature resolution, std/bytes/uuid/futures semantics, and the frozen tables under tables/ (each entry confirmed by reading, one reason per exception). Decides named structural clauses that are necessary conditions of the property; does not decide the behaviour over all inputs/histories."
CHECKS = {}
NA = {}
def check(pid, text, technique, design):
    CHECKS[pid] = dict(text=text, technique=technique, design=design)
def na(pid, reason):
    NA[pid] = reason
exec(open(os.path.join(HERE, "tools", "manifest_table.py")).read())
m = {
    "version": 1,
    "setup_cmd": "cd /verif && CARGO_NET_OFFLINE=true cargo +nightly build --release --offline --manifest-path driver/Cargo.toml && ./check --extract ws",
    "hooks": {"guard": "aldrin_verif", "enable": "none needed: the driver analyses the real build (RUSTC_WORKSPACE_WRAPPER under cargo +nightly check); no source hooks exist", "baseline_off_cmd": "cd /repo && cargo test --workspace --no-fail-fast --offline", "source_commits": [], "add_only": True},
    "engines": [
        {"name": "facts-driver", "path": "driver/", "serves_properties": sorted(CHECKS), "kind_free_text": "rustc_private driver: dumps ADTs, impls and pre-coroutine MIR (resolved callees, const generics) of every workspace crate as JSON"},
        {"name": "rules", "path": "rules/", "serves_properties": sorted(CHECKS), "kind_free_text": "python3 stdlib rule engine: dominance / guard / origin-slice / path-signature primitives over the MIR facts, one module per property, frozen tables under tables/"},
    ],
    "checks": [],
    "notes": "Static analysis only: no aldrin code is executed, concretely or symbolically. See DESIGN.md.",
    "not_applicable": [{"property_id": k, "reason": v} for k, v in sorted(NA.items())],
}
for pid in sorted(CHECKS):
    c = CHECKS[pid]
    m["checks"].append({
        "property_id": pid,
        "quick_cmd": "./check %s --tier quick" % pid,
        "thorough_cmd": "./check %s --tier thorough" % pid,
        "evidence_file": "evidence/%s.json" % pid,
        "replay_cmd_template": "cat {path}",
        "engine": "rules",
        "level_claimed": {"category": "other", "text": c["text"], "design_ref": c["design"]},
        "level_note": NOTE,
        "technique": c["technique"],
    })
json.dump(m, open(os.path.join(HERE, "MANIFEST.json"), "w"), indent=1)
print("MANIFEST.json: %d checks, %d not applicable" % (len(CHECKS), len(NA)))
